#!/bin/bash
# P3 (edge: public libfs API in a non-default build): libfs built without its
# `use_linux` feature (default-features = false) exports fallback::copy_node,
# which creates nothing and returns Ok(()) - the node is silently not copied.
# (The xcp binary cannot reach this on Linux: libxcp always pulls libfs with
# default features.)
# exit 1 = property violated on this tree, exit 0 = holds, exit 2 = setup problem.
set -u
ROOT=$(cd "$(dirname "$0")/.." && pwd)
export CARGO_TARGET_DIR="$ROOT/target" RUST_BACKTRACE=0
W=$(mktemp -d "$ROOT/target/p3demo.XXXXXX") || exit 2
trap 'rm -rf "$W"' EXIT
mkdir -p "$W/crate/src"
cat > "$W/crate/Cargo.toml" <<EOT
[package]
name = "p3demo"
version = "0.0.0"
edition = "2021"
[workspace]
[dependencies]
libfs = { path = "$ROOT/libfs", default-features = false }
EOT
cat > "$W/crate/src/main.rs" <<'EOT'
use std::path::Path;
fn main() {
    let a: Vec<String> = std::env::args().collect();
    let r = libfs::copy_node(Path::new(&a[1]), Path::new(&a[2]));
    println!("libfs::copy_node -> {:?}", r);
    std::process::exit(if r.is_ok() { 0 } else { 3 });
}
EOT
cp "$ROOT/Cargo.lock" "$W/crate/Cargo.lock"
(cd "$W/crate" && cargo build -j 3 --offline -q) || exit 2
umask 022
mkfifo -m 640 "$W/f"
"$ROOT/target/debug/p3demo" "$W/f" "$W/g"; rc=$?
rm -f "$ROOT/target/debug/p3demo" "$ROOT/target/debug/p3demo.d"
if [ $rc -eq 0 ] && [ ! -p "$W/g" ]; then
    echo "VIOLATION: copy_node reported success but no FIFO exists at the destination: $(ls -l "$W/g" 2>&1)"
    echo "P3: violated"; exit 1
fi
echo "P3: holds (rc=$rc, $(stat -c '%F %a' "$W/g" 2>&1))"; exit 0
