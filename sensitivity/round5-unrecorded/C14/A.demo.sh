#!/bin/bash
# Demo for seeded change A.  exit 1 = property violated (patch applied),
# exit 0 = holds (pristine tree), exit 2 = setup problem.
#
# History that makes it manifest: the destination already holds a node of the
# same type, device number and permission bits as the source (here: left by a
# first copy made under umask 0), and the copy is repeated under umask 022 with
# a source mode that has group/other write bits.  C14 requires the destination
# to end up with  source mode & ~022 ; with the patch the old node is kept.
set -u
ROOT=$(cd "$(dirname "$0")/.." && pwd)
export CARGO_TARGET_DIR="$ROOT/target" RUST_BACKTRACE=0
(cd "$ROOT" && cargo build -j 3 --offline -q) || exit 2
X="$ROOT/target/debug/xcp"
W=$(mktemp -d "$ROOT/target/ademo.XXXXXX") || exit 2
trap 'rm -rf "$W"' EXIT
bad=0
sig() { stat -c '%F|%a|%t:%T' "$1" 2>/dev/null; }

for drv in parfile parblock; do
  for pos in sole tree; do
    rm -rf "$W/src" "$W/dst"; mkdir -p "$W/src/sub" "$W/dst"
    ( umask 0
      mkfifo -m 666 "$W/src/sub/fifo"
      mknod -m 666 "$W/src/sub/chr" c 4 64
      python3 -c 'import os,stat,sys; os.mknod(sys.argv[1], stat.S_IFSOCK|0o666)' "$W/src/sub/sock" ) || exit 2
    copy() {
      if [ $pos = tree ]; then
        "$X" -r --driver $drv "$W/src/." "$W/dst" || return 1
      else
        mkdir -p "$W/dst/sub"
        for n in fifo chr sock; do "$X" --driver $drv "$W/src/sub/$n" "$W/dst/sub/$n" || return 1; done
      fi
    }
    # first copy, umask 0: destination nodes get 0666 (correct)
    ( umask 0;   copy ) >"$W/out" 2>&1 || { echo "first copy failed: $(head -1 "$W/out")"; exit 2; }
    for n in fifo chr sock; do
      [ "$(sig "$W/dst/sub/$n")" = "$(sig "$W/src/sub/$n")" ] || { echo "setup: first copy of $n wrong: $(sig "$W/dst/sub/$n")"; exit 2; }
    done
    # second copy, umask 022: destination must now be 0644
    ( umask 022; copy ) >"$W/out" 2>&1; rc=$?
    for n in fifo chr sock; do
      want=$(sig "$W/src/sub/$n" | sed 's/|666|/|644|/'); got=$(sig "$W/dst/sub/$n")
      if [ $rc -ne 0 ] || [ "$want" != "$got" ]; then
        bad=$((bad+1))
        echo "VIOLATION drv=$drv pos=$pos $n: after re-copy under umask 022 rc=$rc destination is '$got', required '$want'"
      fi
    done
  done
done
if [ $bad -gt 0 ]; then echo "A: $bad violating cases"; exit 1; fi
echo "A: holds"; exit 0
