#!/bin/bash
# P2 (edge of the domain: needs the --gitignore option): a FIFO, socket or
# character device given as the SOLE source is not copied when --gitignore is
# set; the run fails with ENOTDIR before anything is created, because the ignore
# file is looked up as "<source>/.gitignore".  The same node inside a directory
# source is copied fine with --gitignore.
# exit 1 = property violated on this tree, exit 0 = holds, exit 2 = setup problem.
set -u
ROOT=$(cd "$(dirname "$0")/.." && pwd)
export CARGO_TARGET_DIR="$ROOT/target" RUST_BACKTRACE=0
(cd "$ROOT" && cargo build -j 3 --offline -q) || exit 2
X="$ROOT/target/debug/xcp"
W=$(mktemp -d "$ROOT/target/p2demo.XXXXXX") || exit 2
trap 'rm -rf "$W"' EXIT
umask 022
bad=0
sig() { stat -c '%F|%a|%t:%T' "$1" 2>/dev/null; }

mkdir -p "$W/src"
mkfifo -m 640 "$W/src/fifo"
mknod -m 640 "$W/src/chr" c 1 3
python3 -c 'import os,stat,sys; os.mknod(sys.argv[1], stat.S_IFSOCK|0o640)' "$W/src/sock"

for drv in parfile parblock; do
  # control: inside a tree, with --gitignore
  rm -rf "$W/dst"; "$X" -r --gitignore --driver $drv "$W/src" "$W/dst" >"$W/out" 2>&1 || { echo "control failed: $(head -1 "$W/out")"; bad=$((bad+1)); }
  for n in fifo chr sock; do
    [ "$(sig "$W/src/$n")" = "$(sig "$W/dst/$n")" ] || { echo "VIOLATION (tree) $drv $n"; bad=$((bad+1)); }
  done
  # sole source
  for n in fifo chr sock; do
    rm -rf "$W/dst"; mkdir "$W/dst"
    "$X" --gitignore --driver $drv "$W/src/$n" "$W/dst/$n" >"$W/out" 2>&1; rc=$?
    want=$(sig "$W/src/$n"); got=$(sig "$W/dst/$n")
    if [ $rc -ne 0 ] || [ "$want" != "$got" ]; then
        bad=$((bad+1))
        echo "VIOLATION drv=$drv sole source $n with --gitignore: rc=$rc, destination is '$got', required '$want'; $(head -1 "$W/out")"
    fi
  done
done
if [ $bad -gt 0 ]; then echo "P2: $bad violating cases"; exit 1; fi
echo "P2: holds"; exit 0
