#!/bin/bash
# P1: an existing destination entry that is a dangling (or self-referencing)
# symbolic link is NOT replaced by the node; the run fails with EEXIST.
# C14 requires: "... replacing an existing entry unless no-clobber is set".
# exit 1 = property violated on this tree, exit 0 = holds, exit 2 = setup problem.
set -u
ROOT=$(cd "$(dirname "$0")/.." && pwd)
export CARGO_TARGET_DIR="$ROOT/target" RUST_BACKTRACE=0
(cd "$ROOT" && cargo build -j 3 --offline -q) || exit 2
X="$ROOT/target/debug/xcp"
W=$(mktemp -d "$ROOT/target/p1demo.XXXXXX") || exit 2
trap 'rm -rf "$W"' EXIT
umask 022
bad=0

mknode() { # kind path
    case $1 in
        fifo) mkfifo -m 640 "$2" ;;
        chr)  mknod -m 640 "$2" c 300 70000 ;;
        sock) python3 -c 'import os,stat,sys; os.mknod(sys.argv[1], stat.S_IFSOCK|0o640)' "$2" ;;
    esac
}
sig() { stat -c '%F|%a|%t:%T' "$1" 2>/dev/null; }

for drv in parfile parblock; do
  for kind in fifo chr sock; do
    for link in nowhere self; do
      for pos in sole tree; do
        rm -rf "$W/src" "$W/dst"; mkdir -p "$W/src/sub" "$W/dst/sub"
        mknode $kind "$W/src/sub/n" || exit 2
        [ $link = self ] && tgt=n || tgt=nowhere
        ln -s "$tgt" "$W/dst/sub/n"
        if [ $pos = sole ]; then
            # destination directory given, so the final name is dst/sub/n
            "$X" --driver $drv "$W/src/sub/n" "$W/dst/sub" >"$W/out" 2>&1; rc=$?
        else
            "$X" -r --driver $drv "$W/src/." "$W/dst" >"$W/out" 2>&1; rc=$?
        fi
        want=$(sig "$W/src/sub/n"); got=$(sig "$W/dst/sub/n")
        if [ $rc -ne 0 ] || [ "$want" != "$got" ]; then
            bad=$((bad+1))
            echo "VIOLATION drv=$drv kind=$kind link->$tgt pos=$pos: rc=$rc, destination is '$got', required '$want'; $(head -1 "$W/out")"
        fi
      done
    done
  done
done

# Reference: GNU cp replaces the dangling link with the node.
rm -rf "$W/src" "$W/dst"; mkdir -p "$W/src" "$W/dst"; mkfifo -m 640 "$W/src/n"; ln -s nowhere "$W/dst/n"
cp -r "$W/src/n" "$W/dst/n" && echo "reference: GNU cp -r gives $(sig "$W/dst/n")"

if [ $bad -gt 0 ]; then echo "P1: $bad violating cases"; exit 1; fi
echo "P1: holds"; exit 0
