#!/bin/bash
# P2 (edge of the domain: prior destination state): two destination names that are hard links of
# one another.  xcp overwrites the shared inode twice and exits 0; one of the two
# selected files does not have its source's bytes at its mapped destination.
# exit 1 = violated, 0 = holds, 2 = could not run.
ROOT=$(cd "$(dirname "$0")/.." && pwd)
export CARGO_TARGET_DIR=$ROOT/target
( cd "$ROOT" && cargo build -j 3 --offline --quiet ) || exit 2
X=$CARGO_TARGET_DIR/debug/xcp
WORK=${WORK:-$ROOT/target/demo-P2}
rm -rf "$WORK"; mkdir -p "$WORK" || exit 2
trap 'rm -rf "$WORK"' EXIT
cd "$WORK" || exit 2
viol=0
for drv in parfile parblock; do
    rm -rf src dest; mkdir -p src dest/src
    printf 'AAAAAAAA-content-of-a\n' > src/a
    printf 'B\n' > src/b
    echo old > dest/src/a
    ln dest/src/a dest/src/b          # history: a and b were once deduplicated / hard linked
    "$X" -r -w 1 --driver $drv --no-progress src dest; rc=$?
    echo "$drv: xcp exit status $rc"
    [ $rc -eq 0 ] || continue
    for f in a b; do
        if ! cmp -s src/$f dest/src/$f; then
            echo "$drv: dest/src/$f differs from src/$f: $(head -c 40 dest/src/$f | tr '\n' ' ')"
            viol=1
        fi
    done
done
[ $viol -eq 1 ] && { echo "VIOLATED"; exit 1; }
echo "HOLDS"; exit 0
