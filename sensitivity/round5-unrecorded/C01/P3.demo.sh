#!/bin/bash
# P3: two different source files are mapped onto the same destination path and are written
# concurrently; xcp exits 0 and the destination is a mixture that equals NEITHER source.
#  (a) xcp binary:  xcp -r x/. f dest      (x/f and ./f both map to dest/f; the duplicate
#      check in src/main.rs only compares the top-level target of each source argument)
#  (b) libxcp API:  CopyDriver::copy([a/f, b/f], dest)  (no duplicate check at all in the library)
# exit 1 = violated, 0 = holds, 2 = could not run.
ROOT=$(cd "$(dirname "$0")/.." && pwd)
export CARGO_TARGET_DIR=$ROOT/target
( cd "$ROOT" && cargo build -j 3 --offline --quiet ) || exit 2
( cd "$ROOT/SEEDED/apidemo" && cargo build -j 3 --offline --quiet ) || exit 2
X=$CARGO_TARGET_DIR/debug/xcp
L=$CARGO_TARGET_DIR/debug/libxcp_copy
WORK=${WORK:-$ROOT/target/demo-P3}
rm -rf "$WORK"; mkdir -p "$WORK" || exit 2
trap 'rm -rf "$WORK"' EXIT
cd "$WORK" || exit 2
mkdir x a b
python3 - <<'PY' || exit 2
open('x/f','wb').write(b'A'*(192<<20))   # source 1 of dest/f (binary case)
open('f','wb').write(b'B'*(64<<20))      # source 2 of dest/f (binary case)
open('a/f','wb').write(b'A'*(128<<20))   # library case
open('b/f','wb').write(b'B'*(96<<20))
PY
describe() { python3 - "$1" <<'PY'
import sys
d=open(sys.argv[1],'rb').read()
print("   %s: %d bytes, sampled content: %s" % (sys.argv[1], len(d), {chr(c) if c else 'NUL': d[::4096].count(bytes([c])) for c in sorted(set(d[::4096]))}))
PY
}
viol=0
check() { # label rc src1 src2 dest
    echo "$1: exit status $2"
    [ "$2" -eq 0 ] || return
    describe "$5"
    m1=no; m2=no
    cmp -s "$3" "$5" && m1=yes
    cmp -s "$4" "$5" && m2=yes
    echo "   equals $3: $m1, equals $4: $m2"
    # both files were selected and mapped to $5; exit 0 promises both are there
    if [ $m1 = no ] || [ $m2 = no ]; then viol=1; fi
}
for drv in parfile parblock; do
    rm -rf dest; mkdir dest
    "$X" -r -w 4 --driver $drv --no-progress x/. f dest; check "binary/$drv: xcp -r x/. f dest" $? x/f f dest/f
    rm -rf dest; mkdir dest
    "$L" $drv 4 dest a/f b/f >/dev/null; check "libxcp/$drv: copy([a/f,b/f], dest)" $? a/f b/f dest/f
done
[ $viol -eq 1 ] && { echo "VIOLATED"; exit 1; }
echo "HOLDS"; exit 0
