#!/bin/bash
# Seeded change A: exit 1 when the tree it is run in loses data (patched), 0 when it holds (pristine).
# Scenario: a sparse source file (e.g. a download or VM image in progress) has a region that was
# preallocated with fallocate() and has JUST been written (the data is still only in the page
# cache, as it is for up to ~30 s after any write).  It is copied with --driver parblock on a
# filesystem with extent maps (ext4 here).
# Needs: the work directory on ext4/xfs-like fs with FIEMAP support (default: <tree>/target).
ROOT=$(cd "$(dirname "$0")/.." && pwd)
export CARGO_TARGET_DIR=$ROOT/target
( cd "$ROOT" && cargo build -j 3 --offline --quiet ) || exit 2
X=$CARGO_TARGET_DIR/debug/xcp
WORK=${WORK:-$ROOT/target/demo-A}
rm -rf "$WORK"; mkdir -p "$WORK" || exit 2
trap 'rm -rf "$WORK"' EXIT
cd "$WORK" || exit 2
mk() { python3 - "$1" <<'PY'
import os, sys
fd = os.open(sys.argv[1], os.O_RDWR | os.O_CREAT | os.O_TRUNC, 0o644)
os.ftruncate(fd, 64 << 20)                 # 64 MiB file, mostly a hole ...
os.posix_fallocate(fd, 0, 4 << 20)         # ... whose first 4 MiB are preallocated ...
os.pwrite(fd, os.urandom(1 << 20), 65536)  # ... and 1 MiB of real data has just been written
os.close(fd)                               # (no fsync: the extent is still flagged "unwritten")
PY
}
viol=0
run() { # label, args...
    label=$1; shift
    rm -f dst.bin
    "$X" "$@" src.bin dst.bin; rc=$?
    if [ $rc -ne 0 ]; then echo "$label: exit status $rc (error reported, property not engaged)"; return; fi
    if cmp -s src.bin dst.bin; then echo "$label: exit 0, identical"
    else echo "$label: exit 0, DIFFERENT: $(cmp src.bin dst.bin 2>&1)"; viol=1; fi
}
mk src.bin
echo "extent map of the source as FIEMAP reports it right now:"; filefrag -v src.bin 2>/dev/null | sed -n '3,6p'
run "parblock, fresh write   " --driver parblock --no-progress
run "parblock -w1 bs=64K     " --driver parblock -w 1 --block-size 64KB
run "parfile,  fresh write   " --driver parfile --no-progress
sync
run "parblock, after sync    " --driver parblock --no-progress
[ $viol -eq 1 ] && { echo "VIOLATED"; exit 1; }
echo "HOLDS"; exit 0
