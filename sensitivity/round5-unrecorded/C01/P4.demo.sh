#!/bin/bash
# P4 (thread schedule + --backup): the backup name of an overwritten destination is chosen by
# listing the directory and is then used for rename() without any exclusion against the other
# workers.  If the source tree also contains a file of that very name (f.~1~ next to f), the
# rename can replace the freshly copied dest/f.~1~ by the OLD dest/f; xcp exits 0.
# strace is used only to delay rename() by 0.2 s (widens the window; no results are altered);
# without strace the race is hit by repetition.
# exit 1 = violated, 0 = holds (not hit), 2 = could not run.
ROOT=$(cd "$(dirname "$0")/.." && pwd)
export CARGO_TARGET_DIR=$ROOT/target
( cd "$ROOT" && cargo build -j 3 --offline --quiet ) || exit 2
X=$CARGO_TARGET_DIR/debug/xcp
WORK=${WORK:-$ROOT/target/demo-P4}
rm -rf "$WORK"; mkdir -p "$WORK" || exit 2
trap 'rm -rf "$WORK"' EXIT
cd "$WORK" || exit 2
setup() { # npairs
    rm -rf src dest; mkdir src dest
    for i in $(seq "$1"); do
        echo "new $i" > src/f$i
        echo "a source file that merely looks like a backup $i" > "src/f$i.~1~"
        echo "old $i" > dest/f$i
    done
}
verify() { # npairs
    bad=0
    for i in $(seq "$1"); do
        for n in "f$i" "f$i.~1~"; do
            if ! cmp -s "src/$n" "dest/$n"; then
                bad=$((bad+1)); echo "   dest/$n contains: $(cat "dest/$n")"
            fi
        done
    done
    return $bad
}
if command -v strace >/dev/null; then
    setup 6
    strace -f -qq -o /dev/null -e trace=rename,renameat,renameat2 \
        -e inject=rename,renameat,renameat2:delay_enter=200000 \
        "$X" -r -w 4 --driver parfile --no-progress --backup numbered src/. dest; rc=$?
    echo "with rename() delayed: xcp exit status $rc"
    if [ $rc -eq 0 ] && ! verify 6; then echo "VIOLATED"; exit 1; fi
fi
for attempt in $(seq 30); do
    setup 300
    "$X" -r -w 8 --driver parfile --no-progress --backup numbered src/. dest; rc=$?
    if [ $rc -eq 0 ] && ! verify 300; then echo "attempt $attempt (no strace): xcp exit status 0"; echo "VIOLATED"; exit 1; fi
done
echo "HOLDS (race not hit)"; exit 0
