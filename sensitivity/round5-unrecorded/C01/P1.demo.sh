#!/bin/bash
# P1 (library API, libfs): libfs::copy_file() returns Ok for a file larger than one kernel
# copy request (0x7ffff000 bytes) although only the first 2147479552 bytes were copied.
# exit 1 = property violated on this tree, exit 0 = holds, 2 = could not run.
# Needs ~4.3 GiB of disk under $WORK (default: <tree>/target/demo-P1).
ROOT=$(cd "$(dirname "$0")/.." && pwd)
export CARGO_TARGET_DIR=$ROOT/target
WORK=${WORK:-$ROOT/target/demo-P1}
( cd "$ROOT/SEEDED/apidemo" && cargo build -j 3 --offline --quiet ) || exit 2
BIN=$CARGO_TARGET_DIR/debug/libfs_copy_file
rm -rf "$WORK"; mkdir -p "$WORK" || exit 2
trap 'rm -rf "$WORK"' EXIT
# 2 GiB + 64 MiB of non-sparse, position-dependent data
python3 - "$WORK/src.bin" <<'PY' || exit 2
import sys
blk = bytearray(b"\x5a" * (1 << 20))
with open(sys.argv[1], "wb") as f:
    for i in range(2048 + 64):
        blk[0:8] = i.to_bytes(8, "little")
        f.write(blk)
PY
"$BIN" "$WORK/src.bin" "$WORK/dst.bin"; rc=$?
echo "libfs::copy_file exit status (0 = returned Ok): $rc"
[ $rc -eq 0 ] || { echo "copy_file reported an error: property not violated"; exit 0; }
if cmp "$WORK/src.bin" "$WORK/dst.bin"; then
    echo "HOLDS: destination identical"; exit 0
else
    ls -l "$WORK/src.bin" "$WORK/dst.bin"
    echo "VIOLATED: copy_file returned Ok but the destination differs from the source"; exit 1
fi
