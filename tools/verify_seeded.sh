#!/bin/sh
# Confirm a sub-agent's seeded change in its scratch worktree: applies cleanly, baseline tests still pass,
# demo fails with the change and passes without. Usage: verify_seeded.sh <ID> <A|B>
ID=$1; X=$2; W=/tmp/wt-$ID
cd $W || exit 2
git checkout -q -- . ; git status --short | grep -v '^??' | grep -q . && { echo "worktree dirty"; exit 2; }
git apply SEEDED/$X.diff || { echo "APPLY-FAILED"; exit 1; }
python3 /verif/tools/baseline.py $W $W/target | tail -3
timeout 600 bash SEEDED/$X.demo.sh > /tmp/demo-$ID-$X-with.log 2>&1; with=$?
git checkout -q -- .
timeout 600 bash SEEDED/$X.demo.sh > /tmp/demo-$ID-$X-without.log 2>&1; without=$?
echo "$ID $X: demo with patch rc=$with, without rc=$without"
