#!/bin/sh
# Apply a patch to /repo, run the given checks (quick tier), undo the patch. Usage: try_seeded.sh <patch> <ID>...
P=$1; shift
cd /repo || exit 2
git status --short | grep -q . && { echo "/repo not clean"; exit 2; }
git apply "$P" || { echo "patch does not apply"; exit 2; }
cd /verif
for id in "$@"; do
  VERIF_SEED=${VERIF_SEED:-0} ./xv check $id --tier ${TIER:-quick} > /tmp/xv-seeded-$id.log 2>&1; rc=$?
  echo "== $id rc=$rc $(grep -E "^$id (quick|thorough)" /tmp/xv-seeded-$id.log | cut -c1-160)"
  grep -E "^failure|BUILD-FAILURE|GENERATOR-GAP|VACUOUS|INCONCLUSIVE" /tmp/xv-seeded-$id.log | cut -c1-260 | head -4
done
cd /repo && git checkout -- . && git status --short
rm -rf /verif/replays/*/new
