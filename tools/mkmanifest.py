#!/usr/bin/env python3
"""Regenerate /verif/MANIFEST.json from the table below (kept in one place so it stays valid)."""
import json

props = [json.loads(l) for l in open('/verif/properties.jsonl')]
ids = [p['id'] for p in props]

# id -> (level, technique, level text, level note, design ref)
CHECKS = {
 'C01': ('exploration', 'property-based testing (proptest) of the real binary; byte round-trip oracle',
         'Generated search over file size x layout x block size x prior destination x driver x workers x flags against the real xcp binary; every exit-0 run is judged by a byte-for-byte comparison. Thousands of distinct non-trivial cases per run; no claim of absence.',
         'ext4 sandbox; xcp rebuilt from /repo with release arithmetic semantics; harness file writer/reader trusted', '6/C01'),
 'C02': ('exploration', 'model-based property testing: generated trees/invocations vs a reference model of cp\'s mapping rule, whole-sandbox snapshot diff',
         'Generated sandboxes (sources, destination pre-states incl. real earlier runs, bystanders, spellings, glob, -T, --target-directory) run through the real binary; exit-0 post-state must equal the reference model overlay exactly.',
         'reference model written from the property statement; excluded shapes listed in DESIGN.md section 5', '6/C02'),
 'C03': ('fault_enumeration', 'property-based testing of alias relations (whole-sandbox snapshot equality) + kill-point injection and syscall-trace invariant under the ptrace supervisor',
         'Generated alias relations between source and destination must leave the sandbox byte-and-metadata identical; generated copies are run under the supervisor and every entry that is not a mapped destination must be unchanged after success, failure, or a SIGKILL placed before/after a generated mutating system call; additionally no mutating call may target a non-destination path.',
         'kill points are system-call boundaries; atime/ctime/st_blocks not compared', '6/C03'),
 'C04': ('fault_enumeration', 'system-call fault injection (ptrace) at generated fault points of a recorded run; reference-model oracle on exit 0',
         'For generated copies, a recording run enumerates every (call, path, k) fault point of every thread; one (thorough: two) generated point is failed with a man-page errno and the run must either exit non-zero with a message or leave a destination equal to the reference model including requested mode/mtime/fsync/backup.',
         'errno returned without side effect (early failure); single faults quick, pairs thorough; one listed known finding (glob expansion swallows lookup errors)', '6/C04'),
 'C05': ('fault_enumeration', 'fault injection by ptrace supervisor (short counts, unsupported-facility errnos) over proptest-generated files; byte round-trip oracle',
         'Each generated file case is run under a generated fault plan that shortens or fails copy/read/write/clone/extent calls exactly as a kernel legally may; exit 0 must still mean byte-exact.',
         'x86-64 ptrace; injected results are indistinguishable from kernel results; FICLONE success is not available on this filesystem (see C15)', '6/C05'),
 'C06': ('exploration', 'schedule exploration: ptrace priority scheduler (PCT at system-call granularity) over proptest-generated trees; differential oracle across schedules, worker counts and drivers plus trace invariants',
         'Each generated tree is copied 6 (thorough 24) times under generated (driver, workers, schedule kind, seed, priority change points); exit classes must agree, exit-0 destinations must be identical and equal to the reference model, directories must exist before children are created and metadata calls must follow the last data write.',
         'interleavings finer than system calls are not controlled; a schedule seed reproduces a run only approximately (replay retries 3 times)', '6/C06'),
 'C10': ('exploration', 'property-based testing of the real binary over generated metadata; equality / bracket oracles on lstat and xattrs',
         'Generated modes (all of 0..07777), mtimes, xattrs, owners, flag subsets, umasks and pre-existing destinations; after exit 0 the destination must carry exactly the requested attributes; a tenth of the runs are scheduled with one starved worker.',
         'privileged (root) branch only; ext4 nanosecond timestamps; marker files instead of the wall clock for --no-timestamps', '6/C10'),
 'C16': ('exploration', 'property-based testing of generated invalid invocations; exit-status and whole-sandbox snapshot-equality oracle',
         '26 rejection classes x position x destination state x driver x flag noise: each must exit non-zero and leave the sandbox byte-and-metadata identical.',
         'clap-level rejections and main.rs validations are both covered; --glob with a literal name that does not exist is generated and is the listed known finding C16|MissingSourceViaGlob|accepted (documented open question in the code)', '6/C16'),
 'C08': ('exploration', 'property-based testing with generated collisions, partly under the ptrace priority scheduler; snapshot-equality oracle on every pre-existing entry plus exit-status oracle',
         'Generated sources copied with -n into destinations holding colliding files, directories, valid and dangling symlinks, fifos and sockets; every pre-existing entry anywhere must be unchanged, nothing may appear outside the destination, and a collision of a file/link/special source must end in a non-zero status, also under walker-first/workers-first/starved-worker schedules.',
         'collisions below an already colliding directory are unreachable (xcp aborts at the directory) and reported as a separate shadowed class', '6/C08'),
 'C09': ('exploration', 'stateful model-based property testing of histories (proptest vec of steps + interpreter), with kill-point injection under the supervisor',
         'Generated histories of repeated copies with changing contents and backup modes over name sets with prefix relations, backup-like and non-UTF-8 names and pre-seeded backup numbers; after every step the version-preservation invariants are checked against the directory before/after; a sub-check kills xcp around a generated mutating call inside a numbered step.',
         'name sets where one source file is named like a numbered backup of another source file are excluded as inherently ambiguous', '6/C09'),
 'C11': ('exploration', 'property-based testing over generated sparse layouts; allocation-bound and hole-independent content-hash oracle',
         'Generated hole/data layouts (up to 100 extents, up to ~1 GiB apparent size) copied with both drivers and block sizes; destination allocation must stay within a slack that is smaller than the smallest generated hole.',
         'ext4 with SEEK_HOLE/FIEMAP, probed at start', '6/C11'),
 'C13': ('exploration', 'model-based property testing: generated link graphs vs a resolved-tree reference model',
         'Generated trees with links to files, directories, chains up to and beyond the kernel limit, cycles, ancestors and dangling links, copied with -L: unresolvable => non-zero exit; otherwise no link remains and the destination equals the resolved tree.',
         'links that leave the sandbox are not generated (targets outside the source stay inside the sandbox)', '6/C13'),
 'C14': ('exploration', 'property-based testing over generated device nodes under the ptrace supervisor; lstat-equality and trace (never opened) oracle',
         'Generated fifos, sockets, char and block devices (all majors/minors, modes, umasks, destination states, -n) copied alone or inside trees; node type, device number and mode must match, block devices must fail, and the syscall log must not contain an open of a special source.',
         'requires CAP_MKNOD (uid 0 here); nodes are never opened', '6/C14'),
 'C15': ('fault_enumeration', 'ioctl-level fault injection / success emulation by the ptrace supervisor over generated trees; predicates over the syscall log, exit status and bytes',
         'Every reflink mode is run against every FICLONE answer (real, each unsupported errno, hard error, emulated success for all or half of the files) and judged by which system calls were issued per destination file, the exit status and byte equality.',
         'clone success is emulated (no reflink-capable filesystem in the sandbox)', '6/C15'),
 'C18': ('exploration', 'schedule exploration under the ptrace priority scheduler; per-file ordering predicate over the syscall log',
         'Generated multi-block trees copied with --fsync under generated schedules and worker counts (and partially emulated clones); on every exit-0 run each destination file must see a successful fsync after the return of its last data-changing call.',
         'ordering is observed at system-call entry/exit stamps', '6/C18'),
 'C20': ('exploration', 'generated large trees under RLIMIT_NOFILE with adversarial ptrace schedules; exit-status + model oracle, exact descriptor peak reported',
         'Trees of 600-3000 (thorough 30000) files copied under a 1024-descriptor limit, unsupervised and with the walker/dispatcher prioritised over the pool so that queues fill; the run must succeed with a complete tree. The exact peak of open descriptors per (driver, workers, N) is reported.',
         'the peak is reported, not judged (schedule dependent)', '6/C20'),
 'C07': ('exploration', 'fault + schedule exploration under the ptrace supervisor with a state-confirmed hang oracle (deadlock / spin); library-client probe for the API clause',
         'Generated trees (incl. FIFOs, sockets, empty inputs) x schedules x single injected faults; the process must exit. A run over 20 s is re-run under 60 s and is a violation only if the supervisor can name the state (all live threads blocked and none held = deadlock; >100x the fault-free call count = spin); any open of a FIFO/socket source is a violation; the API probe must see copy() return and the update stream end.',
         'bounded-time evidence of liveness; an unconfirmed slow run is reported inconclusive (exit 2), never as a violation', '6/C07'),
 'C12': ('exploration', 'property-based testing of the library API through a linked probe (recording / channel / noop updaters), partly under the ptrace supervisor with faults and schedules; stream invariants vs syscall ground truth',
         'The update stream of generated copies is checked against the announced-size, prefix (Copied <= Size), ground-truth (Copied <= bytes the kernel moved, by supervisor stamps), termination (copy returns, stream ends) and no-silent-incompleteness clauses.',
         'the recording updater linearises updates with a mutex; marker lines are ordered against data calls by the supervisor', '6/C12'),
 'C17': ('exploration', 'differential property-based testing against git itself (check-ignore, cross-checked with ls-files) over a generated pattern grammar and trees',
         'For generated trees and .gitignore files the set of copied relative paths must equal the set git reports as not ignored (excluded directories prune their subtree); without the flag everything is copied.',
         'git 2.39 is the reference; cases where git disagrees with itself are dropped and counted (0 so far)', '6/C17'),
 'C19': ('exploration', 'property-based testing of libfs through a linked API probe; exhaustive enumeration of a bounded universe for merge_extents; libFuzzer target (thorough)',
         'Generated file layouts: every non-zero byte must lie inside the ranges reported by map_extents, merge_extents(map_extents) and the next_sparse_segments walk, which must be ordered and disjoint. merge_extents laws on generated lists and exhaustively on all sorted extent lists over offsets 0..=14 (thorough 0..=19), plus 2M coverage-guided runs in thorough.',
         'exhaustive only over the stated bounded universe (coverage.exhaustive is therefore not set for the whole check); ext4 FIEMAP/SEEK_HOLE', '6/C19'),
}

NA_REASON = 'check not built yet (work in progress in this session)'

m = {
 'version': 1,
 'setup_cmd': './xv setup',
 'hooks': {
  'guard': 'xcp_verif',
  'enable': 'no hooks are needed: all observation and control is from outside the process (ptrace supervisor, filesystem snapshots) or through public APIs; checks build /repo unmodified (cargo build --offline --manifest-path /repo/Cargo.toml --target-dir /verif/.build/xcp). The guard name is reserved and unused.',
  'baseline_off_cmd': 'python3 /verif/tools/baseline.py',
  'source_commits': [],
  'add_only': True,
 },
 'engines': [
  {'name': 'E1 model+snapshot', 'path': 'harness/xv/src/{sandbox,model}.rs', 'serves_properties': ['C01', 'C02', 'C03', 'C08', 'C09', 'C10', 'C11', 'C13', 'C14', 'C16', 'C17'], 'kind_free_text': 'materialise generated specs, run real xcp, recursive lstat/content/xattr snapshots, reference model of cp mapping'},
  {'name': 'E2 ptrace supervisor', 'path': 'harness/xv/src/sup.rs', 'serves_properties': ['C03', 'C04', 'C05', 'C06', 'C07', 'C08', 'C09', 'C10', 'C12', 'C14', 'C15', 'C18', 'C20'], 'kind_free_text': 'syscall log with decoded targets, errno injection, short-count clamps, FICLONE emulation, kill points, priority scheduler at syscall boundaries'},
  {'name': 'E3 api-probe', 'path': 'harness/probe, probe-fallback', 'serves_properties': ['C05', 'C07', 'C12', 'C19'], 'kind_free_text': 'binaries linked against /repo/libxcp and /repo/libfs (with and without the Linux backend): extent maps, merge laws (exhaustive), library-client copy with recording/channel/noop updaters'},
  {'name': 'E4 git oracle', 'path': 'harness/xv/src/checks/c17.rs', 'serves_properties': ['C17'], 'kind_free_text': 'throw-away bare git-dir, check-ignore --no-index and ls-files --others --exclude-standard'},
  {'name': 'E5 libFuzzer', 'path': 'harness/fuzz', 'serves_properties': ['C19'], 'kind_free_text': 'cargo +nightly fuzz target for libfs::merge_extents with the merge laws inside the target (thorough tier)'},
  {'name': 'proptest driver', 'path': 'harness/xv/src/engine.rs', 'serves_properties': ids, 'kind_free_text': 'seeded TestRunner per shard process, known-finding exclusion, shrinking, replay files, evidence'},
 ],
 'checks': [],
 'notes': 'Run from /verif. VERIF_SEED selects the PRNG seed (default 0). Exit 0 = held on everything explored (KNOWN-FINDING lines possible), 1 = VIOLATION line, 2 = inconclusive (build failure, vacuous run, generator gap, watchdog).',
 'not_applicable': [],
}
for i in ids:
    if i in CHECKS:
        lvl, tech, text, note, ref = CHECKS[i]
        m['checks'].append({
            'property_id': i,
            'quick_cmd': f'./xv check {i} --tier quick',
            'thorough_cmd': f'./xv check {i} --tier thorough',
            'evidence_file': f'/verif/evidence/{i}.json',
            'replay_cmd_template': './xv replay {path}',
            'engine': 'harness/xv',
            'level_claimed': {'category': lvl, 'text': text, 'design_ref': 'DESIGN.md section ' + ref},
            'level_note': note,
            'technique': tech,
        })
    else:
        m['not_applicable'].append({'property_id': i, 'reason': NA_REASON})
json.dump(m, open('/verif/MANIFEST.json', 'w'), indent=1)
print('checks:', [c['property_id'] for c in m['checks']])
