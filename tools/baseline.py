#!/usr/bin/env python3
"""Run tarka/xcp's own test suite (guard off: there are no hooks) and compare with BASELINE.json:
every test in stable_pass must pass. Exit 0 iff so."""
import json, re, subprocess, sys, os
base = json.load(open('/root/.vp/BASELINE.json'))
want = set(base['stable_pass'])
env = dict(os.environ, CARGO_NET_OFFLINE='true')
repo = sys.argv[1] if len(sys.argv) > 1 else '/repo'
if len(sys.argv) > 2:
    env['CARGO_TARGET_DIR'] = sys.argv[2]
p = subprocess.run(['cargo', 'test', '--workspace', '--no-fail-fast', '--offline'], cwd=repo, env=env,
                   stdout=subprocess.PIPE, stderr=subprocess.STDOUT, text=True)
cur = None
passed, failed = set(), set()
for line in p.stdout.splitlines():
    m = re.match(r'\s*Running (unittests )?(\S+) \(\S*/deps/([A-Za-z0-9_]+)-[0-9a-f]+\)', line)
    if m:
        unit, path, crate = m.group(1), m.group(2), m.group(3)
        if unit:
            cur = crate  # libfs / libxcp / xcp
        else:
            cur = 'xcp::' + crate
        continue
    m = re.match(r'\s*Doc-tests (\S+)', line)
    if m:
        cur = None
        continue
    m = re.match(r'test (\S+) \.\.\. (ok|FAILED|ignored)', line)
    if m and cur:
        name = cur + '::' + m.group(1)
        (passed if m.group(2) == 'ok' else failed if m.group(2) == 'FAILED' else set()).add(name)
missing = sorted(want - passed)
print(f'baseline: {len(passed & want)}/{len(want)} stable tests pass; {len(failed)} failing overall')
for t in missing:
    print('  NOT PASSING:', t)
sys.exit(0 if not missing else 1)
