#!/bin/bash
# Confirm every X.diff of /tmp/wt-<ID>/SEEDED (baseline + demo with/without). Usage: verify_round.sh <ID>
ID=$1
for d in /tmp/wt-$ID/SEEDED/?.diff; do
  x=$(basename $d .diff)
  v=$(/verif/tools/verify_seeded.sh $ID $x 2>&1 | tail -2 | tr '\n' ' ')
  echo "### $ID-$x verify: $v"
done
