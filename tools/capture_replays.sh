#!/bin/sh
# For a seeded change: apply its patch to /repo, run the given check, keep the shrunk failing cases as
# committed regression replays (replays/<CHECK>/seeded-<seeded id>-<n>.json), undo the patch.
# Usage: capture_replays.sh <seeded-id> <CHECK>
SID=$1; CHK=$2
cd /repo || exit 2
git status --short | grep -q . && { echo "/repo not clean"; exit 2; }
git apply /verif/seeded/$SID/patch.diff || { echo "patch does not apply"; exit 2; }
cd /verif
rm -rf replays/$CHK/new
./xv check $CHK --tier quick > /tmp/xv-capture-$SID-$CHK.log 2>&1
n=0
for f in replays/$CHK/new/*.json; do
  [ -f "$f" ] || continue
  n=$((n+1)); [ $n -gt 2 ] && break
  cp "$f" replays/$CHK/seeded-$SID-$n.json
done
cd /repo && git checkout -- . 
rm -rf /verif/replays/$CHK/new
echo "$SID $CHK: kept $n replay(s)"
