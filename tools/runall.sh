#!/bin/sh
# Run every registered check (quick tier unless $1=thorough) and summarise. Usage: tools/runall.sh [tier] [seed]
TIER=${1:-quick}; SEED=${2:-0}
cd /verif
for id in $(python3 -c "import json;print(' '.join(c['property_id'] for c in json.load(open('MANIFEST.json'))['checks']))"); do
  VERIF_SEED=$SEED ./xv check $id --tier $TIER > /tmp/xv-runall-$id.log 2>&1; rc=$?
  echo "$id rc=$rc $(grep -E "^$id (quick|thorough)" /tmp/xv-runall-$id.log | cut -c1-200)"
  if [ $rc -ne 0 ]; then grep -E "^failure|VIOLATION|GENERATOR-GAP|VACUOUS|INCONCLUSIVE" /tmp/xv-runall-$id.log | cut -c1-300; fi
done
