#!/bin/bash
# Own sensitivity mutations: for each sensitivity/<ID>-<name>.diff confirm it compiles and keeps the baseline
# green (in the scratch worktree /tmp/wt-mut), then run the property's check against it in /repo.
OUT=/verif/sensitivity/RESULTS.md
echo "| mutation | baseline (126 tests) | check | result |" > $OUT
echo "|---|---|---|---|" >> $OUT
for d in /verif/sensitivity/*.diff; do
  name=$(basename $d .diff); id=${name%%-*}
  cd /tmp/wt-mut && git checkout -q -- . && git apply $d || { echo "| $name | does not apply | - | - |" >> $OUT; continue; }
  b=$(python3 /verif/tools/baseline.py /tmp/wt-mut /tmp/wt-mut/target 2>&1 | grep -E "^baseline" | sed 's/baseline: //')
  git checkout -q -- .
  case "$b" in 126/126*) ;; *) echo "| $name | $b | - | not used (baseline not green) |" >> $OUT; continue;; esac
  res=$(/verif/tools/try_seeded.sh $d $id 2>&1 | grep -E "^==|^failure" | head -2 | cut -c1-220 | tr '\n' ' ' | sed 's/|/\//g')
  echo "| $name | $b | $id | $res |" >> $OUT
done
cat $OUT
