#!/usr/bin/env python3
"""Record a confirmed seeded change under /verif/seeded/<ID>-<X>/ . Usage: keep_seeded.py ID X 'needs' 'ran' caught_by(comma sep or none) [missed_by]"""
import sys, os, shutil, json, re
ID, X, needs, ran, caught = sys.argv[1:6]
missed = sys.argv[6] if len(sys.argv) > 6 else ''
src = f'/tmp/wt-{ID}/SEEDED'
OUT = os.environ.get('OUT', X)
dst = f'/verif/seeded/{ID}-{OUT}'
os.makedirs(dst, exist_ok=True)
shutil.copy(f'{src}/{X}.diff', f'{dst}/patch.diff')
shutil.copy(f'{src}/{X}.demo.sh', f'{dst}/demo.sh')
notes = open(f'{src}/notes.md').read()
open(f'{dst}/notes.md', 'w').write(notes)
meta = {
 'id': f'{ID}-{OUT}', 'breaks_property': ID, 'origin': 'written by a sub-agent that saw only the property text and a scratch worktree',
 'needs_to_manifest': needs, 'confirmed': ran,
 'caught_by': [c for c in caught.split(',') if c and c != 'none'],
 'missed_by_at_first': [c for c in missed.split(',') if c],
}
json.dump(meta, open(f'{dst}/meta.json', 'w'), indent=1)
print('kept', dst)
