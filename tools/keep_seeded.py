#!/usr/bin/env python3
"""Record a confirmed seeded change under /verif/seeded/<ID>-<X>/ . Usage: keep_seeded.py ID X 'needs' 'ran' caught_by(comma sep or none) [missed_by]"""
import sys, os, shutil, json, re
ID, X, needs, ran, caught = sys.argv[1:6]
missed = sys.argv[6] if len(sys.argv) > 6 else ''
src = os.environ.get('SRC', f'/tmp/wt-{ID}/SEEDED')
OUT = os.environ.get('OUT', X)
dst = f'/verif/seeded/{ID}-{OUT}'
os.makedirs(dst, exist_ok=True)
shutil.copy(f'{src}/{X}.diff', f'{dst}/patch.diff')
shutil.copy(f'{src}/{X}.demo.sh', f'{dst}/demo.sh')
notes = open(f'{src}/notes.md').read()
open(f'{dst}/notes.md', 'w').write(notes)
meta = {
 'id': f'{ID}-{OUT}', 'breaks_property': ID, 'origin': 'written by a sub-agent that saw only the property text and a scratch worktree',
 'needs_to_manifest': needs, 'confirmed': ran,
 'caught_by': [c for c in caught.split(',') if c and c != 'none'],
 'missed_by_at_first': [c for c in missed.split(',') if c],
}
# helper files the demo needs (small sources only)
import subprocess
extra = [f for f in os.listdir(src) if not re.fullmatch(r'[A-Z]\.(diff|demo\.sh)', f) and f != 'notes.md' and not f.startswith('.')]
if extra:
    os.makedirs(f'{dst}/extras', exist_ok=True)
    for f in extra:
        subprocess.run(['rsync', '-a', '--exclude', 'target', '--exclude', '*.log', '--exclude', '*-test*.txt', '--exclude', '.*', f'{src}/{f}', f'{dst}/extras/'], check=False)
    meta['demo_helper_files'] = 'extras/ (the demo expects them beside it, as in the sub-agent\'s SEEDED directory)'
json.dump(meta, open(f'{dst}/meta.json', 'w'), indent=1)
print('kept', dst)
