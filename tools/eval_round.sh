#!/bin/bash
# Verify and evaluate every X.diff in /tmp/wt-<ID>/SEEDED against the given checks. Usage: eval_round.sh <ID> "<checks>"
ID=$1; CHK=${2:-$1}
for d in /tmp/wt-$ID/SEEDED/?.diff; do
  x=$(basename $d .diff)
  v=$(/verif/tools/verify_seeded.sh $ID $x 2>&1 | tail -2 | tr '\n' ' ')
  echo "### $ID-$x verify: $v"
  /verif/tools/try_seeded.sh $d $CHK 2>&1 | grep -E "^==|^failure" | cut -c1-240 | head -6
done
