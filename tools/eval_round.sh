#!/bin/bash
# Run the given quick checks against every X.diff in /tmp/wt-<ID>/SEEDED (already confirmed by verify_round.sh).
# Usage: eval_round.sh <ID> "<checks>"
ID=$1; CHK=${2:-$1}
for d in /tmp/wt-$ID/SEEDED/?.diff; do
  x=$(basename $d .diff)
  echo "### $ID-$x"
  /verif/tools/try_seeded.sh $d $CHK 2>&1 | grep -E "^==|^failure|not clean|does not apply" | cut -c1-240 | head -8
done
