//! xv: generated-input verification harness for tarka/xcp.
//!
//!   xv setup                               build everything once
//!   xv check <ID> [--tier quick|thorough]  run a property check (exit 0 / 1 / 2)
//!   xv replay <file>                       re-judge a saved case
//!   xv trace [--sched K] -- <xcp args>     debugging: run xcp under the supervisor in cwd

#![allow(dead_code, unused_parens)]

mod checks;
mod engine;
mod model;
mod run;
mod sandbox;
mod spec;
mod sup;
mod util;

use engine::*;
use serde_json::{json, Value};
use std::path::{Path, PathBuf};
use std::process::{Command, Stdio};
use std::time::Instant;

fn load_known() -> Vec<KnownFinding> {
    let p = Path::new("/verif/known_findings.json");
    match std::fs::read_to_string(p) {
        Ok(s) => {
            let v: Value = serde_json::from_str(&s).unwrap_or(Value::Null);
            v.get("findings")
                .and_then(|f| serde_json::from_value::<Vec<KnownFinding>>(f.clone()).ok())
                .unwrap_or_default()
        }
        Err(_) => vec![],
    }
}

fn env_seed() -> u64 {
    std::env::var("VERIF_SEED").ok().and_then(|s| s.trim().parse::<i64>().ok()).map(|v| v as u64).unwrap_or(0)
}

fn arg_val(args: &[String], name: &str) -> Option<String> {
    args.iter().position(|a| a == name).and_then(|i| args.get(i + 1).cloned())
}

fn build_for(needs: &checks::Needs) -> Result<(), String> {
    if needs.xcp {
        run::build_xcp()?;
    }
    if needs.probe {
        run::build_probe()?;
    }
    if needs.fallback {
        run::build_fallback()?;
    }
    Ok(())
}

fn main() {
    let args: Vec<String> = std::env::args().collect();
    if args.len() < 2 {
        eprintln!("usage: xv setup | check <ID> [--tier quick|thorough] | replay <file> | trace -- args");
        std::process::exit(2);
    }
    match args[1].as_str() {
        "setup" => {
            let n = checks::Needs { xcp: true, probe: true, fallback: true };
            if let Err(e) = build_for(&n) {
                eprintln!("{e}");
                std::process::exit(2);
            }
            println!("setup ok");
        }
        "check" => {
            let id = args.get(2).cloned().unwrap_or_default();
            let tier = match arg_val(&args, "--tier").or_else(|| std::env::var("VERIF_TIER").ok()).as_deref() {
                Some("thorough") => Tier::Thorough,
                _ => Tier::Quick,
            };
            std::process::exit(cmd_check(&id, tier, &args));
        }
        "shard" => {
            let id = args[2].clone();
            let tier = if arg_val(&args, "--tier").as_deref() == Some("thorough") { Tier::Thorough } else { Tier::Quick };
            let shard: usize = arg_val(&args, "--shard").unwrap().parse().unwrap();
            let nshards: usize = arg_val(&args, "--nshards").unwrap().parse().unwrap();
            let out = arg_val(&args, "--out").unwrap();
            let ctx = Ctx { id: id.clone(), tier, seed: env_seed(), shard, nshards, known: load_known(), scale: env_scale(), replay_attempts: 3 };
            let chk = checks::get(&id).expect("unknown check");
            let mut rec = Rec::default();
            chk.run_shard(&ctx, &mut rec);
            std::fs::write(&out, serde_json::to_vec(&rec).unwrap()).expect("write shard output");
        }
        "replay" => {
            let f = args.get(2).cloned().unwrap_or_default();
            std::process::exit(cmd_replay(&f));
        }
        "trace" => {
            let pos = args.iter().position(|a| a == "--").unwrap_or(args.len() - 1);
            let xargs: Vec<Vec<u8>> = args[pos + 1..].iter().map(|s| s.as_bytes().to_vec()).collect();
            let kind = match arg_val(&args[..pos], "--sched").as_deref() {
                Some("random") => sup::SchedKind::Random,
                Some("walker") => sup::SchedKind::WalkerFirst,
                Some("workers") => sup::SchedKind::WorkersFirst,
                Some("starve") => sup::SchedKind::StarveWorker(0),
                _ => sup::SchedKind::Free,
            };
            let seed = arg_val(&args[..pos], "--seed").and_then(|s| s.parse().ok()).unwrap_or(1);
            if let Err(e) = run::build_xcp() {
                eprintln!("{e}");
                std::process::exit(2);
            }
            let cwd = std::env::current_dir().unwrap();
            let out_dir = PathBuf::from(format!("/tmp/xv-trace-{}", std::process::id()));
            std::fs::create_dir_all(&out_dir).unwrap();
            let parblock = args.iter().any(|a| a.contains("parblock"));
            let spec = sup::SupSpec {
                bin: PathBuf::from(run::XCP_BIN),
                args: xargs,
                cwd: cwd.clone(),
                umask: 0o022,
                nofile: None,
                timeout: std::time::Duration::from_secs(30),
                out_dir: out_dir.clone(),
                root: util::pbytes(&cwd),
                extra_roots: vec![],
                rules: vec![],
                sched: sup::Sched { kind, seed, change_points: vec![], parblock },
                log_all: args.iter().any(|a| a == "--all"),
                extra_env: vec![],
                stdout_to: None,
            };
            let o = sup::Sup::run(spec);
            for e in &o.log {
                println!("{}", e.short());
            }
            println!(
                "exit={:?} sig={:?} timeout={} threads={} roles={:?} peak_fds={} valve={} wall={:?}\nstderr: {}",
                o.code, o.signal, o.timed_out, o.threads, o.roles, o.peak_fds, o.valve_releases, o.wall, o.stderr_s()
            );
            let _ = std::fs::remove_dir_all(&out_dir);
        }
        other => {
            eprintln!("unknown command {other}");
            std::process::exit(2);
        }
    }
}

fn env_scale() -> f64 {
    std::env::var("XV_SCALE").ok().and_then(|s| s.parse().ok()).unwrap_or(1.0)
}

fn write_replay(f: &Failure) -> String {
    let dir = format!("/verif/replays/{}/new", f.property);
    let _ = std::fs::create_dir_all(&dir);
    let body = serde_json::to_string_pretty(f).unwrap();
    let h = util::fnv64(body.as_bytes());
    let path = format!("{}/{:016x}.json", dir, h);
    let _ = std::fs::write(&path, body);
    path
}

fn cmd_replay(file: &str) -> i32 {
    let s = match std::fs::read_to_string(file) {
        Ok(s) => s,
        Err(e) => {
            eprintln!("cannot read {file}: {e}");
            return 2;
        }
    };
    let f: Failure = match serde_json::from_str(&s) {
        Ok(f) => f,
        Err(e) => {
            eprintln!("bad replay file: {e}");
            return 2;
        }
    };
    let chk = match checks::get(&f.property) {
        Some(c) => c,
        None => {
            eprintln!("unknown property {}", f.property);
            return 2;
        }
    };
    if let Err(e) = build_for(&chk.needs()) {
        eprintln!("{e}");
        return 2;
    }
    let ctx = Ctx { id: f.property.clone(), tier: Tier::Quick, seed: env_seed(), shard: 0, nshards: 1, known: load_known(), scale: 1.0, replay_attempts: 3 };
    match chk.replay(&ctx, &f.sub, &f.case) {
        Verdict::Pass => {
            println!("replay {}: property holds on this case", file);
            0
        }
        Verdict::Inconclusive(w) => {
            println!("replay {}: inconclusive: {}", file, w);
            2
        }
        Verdict::Fail(sig, reason, details) => {
            if let Some(k) = ctx.is_known(&sig) {
                println!("KNOWN-FINDING: property={} {}", f.property, k.what);
                println!("replay {}: fails with a listed known finding [{}]: {}", file, sig, reason);
                return 0;
            }
            println!("signature: {}\nreason: {}\ndetails: {}", sig, reason, serde_json::to_string_pretty(&details).unwrap_or_default());
            println!("VIOLATION property={} replay={}", f.property, file);
            1
        }
    }
}

fn cmd_check(id: &str, tier: Tier, args: &[String]) -> i32 {
    let t0 = Instant::now();
    let chk = match checks::get(id) {
        Some(c) => c,
        None => {
            eprintln!("unknown check {id}");
            return 2;
        }
    };
    if let Err(e) = build_for(&chk.needs()) {
        eprintln!("BUILD-FAILURE (inconclusive, not a verdict): {e}");
        return 2;
    }
    let seed = env_seed();
    let known = load_known();
    let nshards: usize = arg_val(args, "--shards").and_then(|s| s.parse().ok()).unwrap_or_else(|| chk.shards(tier));
    let mut total = Rec::default();

    // 1. regression tier: committed replay files
    let ctx0 = Ctx { id: id.to_string(), tier, seed, shard: 0, nshards: 1, known: known.clone(), scale: env_scale(), replay_attempts: 1 };
    let rdir = format!("/verif/replays/{}", id);
    let mut replay_files: Vec<PathBuf> = std::fs::read_dir(&rdir)
        .map(|rd| rd.flatten().map(|e| e.path()).filter(|p| p.extension().map(|x| x == "json").unwrap_or(false)).collect())
        .unwrap_or_default();
    replay_files.sort();
    let mut violation_lines: Vec<String> = vec![];
    for rf in &replay_files {
        if let Ok(s) = std::fs::read_to_string(rf) {
            if let Ok(f) = serde_json::from_str::<Failure>(&s) {
                total.count("replays_run", 1);
                total.eval(1);
                match chk.replay(&ctx0, &f.sub, &f.case) {
                    Verdict::Fail(sig, reason, _) => {
                        if let Some(k) = ctx0.is_known(&sig) {
                            *total.known_hits.entry(format!("{}: {}", k.signature, k.what)).or_insert(0) += 1;
                        } else {
                            println!("replay {} fails: [{}] {}", rf.display(), sig, reason);
                            violation_lines.push(format!("VIOLATION property={} replay={}", id, rf.display()));
                        }
                    }
                    _ => {}
                }
            }
        }
    }

    // 2. generated search, sharded by process
    let exe = std::env::current_exe().expect("current_exe");
    let tmpdir = PathBuf::from(format!("/verif/.build/shards/{}-{}", id, std::process::id()));
    let _ = std::fs::create_dir_all(&tmpdir);
    let mut children = vec![];
    for s in 0..nshards {
        let out = tmpdir.join(format!("shard{}.json", s));
        let ch = Command::new(&exe)
            .args(["shard", id, "--tier", tier.name(), "--shard", &s.to_string(), "--nshards", &nshards.to_string(), "--out"])
            .arg(&out)
            .env("VERIF_SEED", (seed as i64).to_string())
            .stdin(Stdio::null())
            .spawn()
            .expect("spawn shard");
        children.push((s, ch, out));
    }
    let mut infra_fail: Vec<String> = vec![];
    for (s, mut ch, out) in children {
        let st = ch.wait().expect("wait shard");
        if !st.success() {
            infra_fail.push(format!("shard {} ended with {:?}", s, st));
            continue;
        }
        match std::fs::read(&out).ok().and_then(|b| serde_json::from_slice::<Rec>(&b).ok()) {
            Some(r) => total.merge(r),
            None => infra_fail.push(format!("shard {} produced no result", s)),
        }
    }
    let _ = std::fs::remove_dir_all(&tmpdir);

    // 3. verdict
    for (k, n) in &total.known_hits {
        // "signature: what"
        println!("KNOWN-FINDING: property={} {} (hit {} times)", id, k, n);
    }
    // keep the smallest failure per signature
    let mut by_sig: std::collections::BTreeMap<String, Failure> = Default::default();
    for f in total.failures.drain(..) {
        let sz = serde_json::to_string(&f.case).map(|s| s.len()).unwrap_or(0);
        match by_sig.get(&f.signature) {
            Some(g) if serde_json::to_string(&g.case).map(|s| s.len()).unwrap_or(0) <= sz => {}
            _ => {
                by_sig.insert(f.signature.clone(), f);
            }
        }
    }
    for (_sig, f) in &by_sig {
        let path = write_replay(f);
        println!("failure [{}] sub={} : {}", f.signature, f.sub, f.reason);
        violation_lines.push(format!("VIOLATION property={} replay={}", id, path));
    }
    let nviol = violation_lines.len();
    let wall = t0.elapsed().as_secs_f64();
    let min_nt = chk.min_nontrivial(tier);
    let mut gaps: Vec<String> = vec![];
    for c in chk.required_classes(tier) {
        if !total.classes.keys().any(|k| k.contains(&c)) {
            gaps.push(c);
        }
    }
    let ev = evidence_json(id, tier, seed, chk.level(), &chk.rule(), &total, wall, &chk.assumptions(), nviol);
    let _ = std::fs::create_dir_all("/verif/evidence");
    let evp = format!("/verif/evidence/{}.json", id);
    std::fs::write(&evp, serde_json::to_string_pretty(&ev).unwrap()).expect("write evidence");
    println!(
        "{} {}: evaluations={} cases={} distinct_nontrivial={} classes={} known_hits={} violations={} wall={:.1}s",
        id,
        tier.name(),
        total.evaluations,
        total.cases,
        total.nontrivial.len(),
        total.classes.len(),
        total.known_hits.values().sum::<u64>(),
        nviol,
        wall
    );
    if nviol > 0 {
        for l in &violation_lines {
            println!("{}", l);
        }
        return 1;
    }
    if !infra_fail.is_empty() {
        for l in &infra_fail {
            println!("INCONCLUSIVE: {}", l);
        }
        return 2;
    }
    if !gaps.is_empty() {
        println!("GENERATOR-GAP: named classes never generated: {:?}", gaps);
        return 2;
    }
    if total.nontrivial.len() < min_nt {
        println!("VACUOUS: only {} distinct non-trivial cases (< {})", total.nontrivial.len(), min_nt);
        return 2;
    }
    let inc = total.counters.get("inconclusive_cases").copied().unwrap_or(0);
    if inc as u64 * 5 > total.cases.max(1) {
        println!("INCONCLUSIVE: {} of {} cases could not be judged: {:?}", inc, total.cases, total.inconclusive.iter().take(3).collect::<Vec<_>>());
        return 2;
    }
    let _ = json!(null);
    0
}
