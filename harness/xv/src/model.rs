//! Reference model of cp/xcp mapping semantics (pure functions over snapshots).
