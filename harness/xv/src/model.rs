//! Reference model of cp/xcp mapping semantics: pure functions over directory snapshots.
//! Written from the property statements and GNU cp's mapping rule, not from xcp's code.

use crate::sandbox::{Meta, Snap, K};
use crate::util::*;
use serde::{Deserialize, Serialize};
use std::collections::{BTreeMap, BTreeSet};

#[derive(Clone, Debug, Default, Serialize, Deserialize)]
pub struct Inv {
    /// source arguments exactly as given on the command line (relative to the sandbox root = cwd, or absolute)
    #[serde(with = "bser_vec")]
    pub sources: Vec<Vec<u8>>,
    #[serde(with = "bser")]
    pub dest: Vec<u8>,
    pub recursive: bool,
    pub no_target_dir: bool,
    /// destination given with --target-directory
    pub target_dir_opt: bool,
    pub glob: bool,
    pub deref: bool,
    pub no_clobber: bool,
    pub no_perms: bool,
    pub no_timestamps: bool,
    pub parblock: bool,
    pub workers: u8,
    pub block: Option<u64>,
    pub no_progress: bool,
    pub gitignore: bool,
    pub fsync: bool,
    pub ownership: bool,
    /// "", "none", "auto", "numbered"
    pub backup: String,
    /// "", "auto", "never", "always"
    pub reflink: String,
    pub force: bool,
}

impl Inv {
    pub fn driver(&self) -> &'static str {
        if self.parblock {
            "parblock"
        } else {
            "parfile"
        }
    }
    pub fn argv(&self) -> Vec<Vec<u8>> {
        let mut a: Vec<Vec<u8>> = vec![];
        let mut push = |s: &str| a.push(s.as_bytes().to_vec());
        push("--driver");
        push(self.driver());
        if self.workers != 4 {
            push("--workers");
            push(&self.workers.to_string());
        }
        if let Some(b) = self.block {
            push("--block-size");
            push(&b.to_string());
        }
        if self.recursive {
            push("-r");
        }
        if self.no_target_dir {
            push("-T");
        }
        if self.glob {
            push("--glob");
        }
        if self.deref {
            push("-L");
        }
        if self.no_clobber {
            push("-n");
        }
        if self.force {
            push("-f");
        }
        if self.no_perms {
            push("--no-perms");
        }
        if self.no_timestamps {
            push("--no-timestamps");
        }
        if self.no_progress {
            push("--no-progress");
        }
        if self.gitignore {
            push("--gitignore");
        }
        if self.fsync {
            push("--fsync");
        }
        if self.ownership {
            push("--ownership");
        }
        if !self.backup.is_empty() {
            push(&format!("--backup={}", self.backup));
        }
        if !self.reflink.is_empty() {
            push(&format!("--reflink={}", self.reflink));
        }
        if self.target_dir_opt {
            push("--target-directory");
            a.push(self.dest.clone());
            for s in &self.sources {
                a.push(s.clone());
            }
        } else {
            for s in &self.sources {
                a.push(s.clone());
            }
            a.push(self.dest.clone());
        }
        a
    }
    pub fn argv_s(&self) -> Vec<String> {
        self.argv().iter().map(|a| esc(a)).collect()
    }
}

/// Make a command-line path relative to the sandbox root (lexically). None if it escapes the root.
pub fn rel_to_root(root: &[u8], given: &[u8]) -> Option<Vec<u8>> {
    let abs = lex_norm(root, given);
    if abs == root {
        return Some(vec![]);
    }
    if abs.starts_with(root) && abs.get(root.len()) == Some(&b'/') {
        Some(abs[root.len() + 1..].to_vec())
    } else {
        None
    }
}

#[derive(Debug, Clone, PartialEq)]
pub enum Res {
    Found(Vec<u8>),
    Missing,
    Loop,
    Outside,
}

/// Resolve `rel` (relative to root) through symlinks recorded in the snapshot.
pub fn resolve(snap: &Snap, root: &[u8], rel: &[u8], follow_last: bool) -> Res {
    fn go(snap: &Snap, root: &[u8], rel: &[u8], follow_last: bool, depth: &mut u32) -> Res {
        let comps: Vec<&[u8]> = rel.split(|c| *c == b'/').filter(|c| !c.is_empty() && *c != b".").collect();
        let mut cur: Vec<u8> = vec![];
        for (i, c) in comps.iter().enumerate() {
            if *c == b".." {
                cur = parent(&cur).to_vec();
                continue;
            }
            let next = join(&cur, c);
            let m = match snap.get(&next) {
                Some(m) => m,
                None => return Res::Missing,
            };
            let last = i + 1 == comps.len();
            if m.kind == K::L && (!last || follow_last) {
                *depth += 1;
                if *depth > 40 {
                    return Res::Loop;
                }
                let t = m.link_bytes().unwrap_or_default();
                let trel = if t.first() == Some(&b'/') {
                    match rel_to_root(root, &t) {
                        Some(r) => r,
                        None => return Res::Outside,
                    }
                } else {
                    // relative to the link's directory; lexical join then re-resolve
                    let mut base = cur.clone();
                    let mut out: Vec<u8> = vec![];
                    // keep ".." semantic: resolve step by step
                    for tc in t.split(|c| *c == b'/') {
                        if tc.is_empty() || tc == b"." {
                            continue;
                        }
                        if tc == b".." {
                            if out.is_empty() {
                                if base.is_empty() {
                                    return Res::Outside;
                                }
                                base = parent(&base).to_vec();
                            } else {
                                // cannot lexically pop a possibly-symlink component safely; resolve prefix first
                                let pre = join(&base, &out);
                                match go(snap, root, &pre, true, depth) {
                                    Res::Found(p) => {
                                        base = parent(&p).to_vec();
                                        out.clear();
                                    }
                                    other => return other,
                                }
                            }
                        } else {
                            out = join(&out, tc);
                        }
                    }
                    join(&base, &out)
                };
                // append the remaining components
                let mut rest = trel;
                for r in &comps[i + 1..] {
                    rest = join(&rest, r);
                }
                // careful: remaining ".." must apply to the resolved target, handled by recursion
                return go(snap, root, &rest, follow_last, depth);
            }
            if !last && m.kind != K::D {
                return Res::Missing; // ENOTDIR
            }
            cur = next;
        }
        if cur.is_empty() || snap.contains_key(&cur) {
            Res::Found(cur)
        } else {
            Res::Missing
        }
    }
    let mut d = 0;
    go(snap, root, rel, follow_last, &mut d)
}

pub fn is_dir_following(snap: &Snap, root: &[u8], rel: &[u8]) -> bool {
    match resolve(snap, root, rel, true) {
        Res::Found(p) => snap.get(&p).map(|m| m.kind == K::D).unwrap_or(false),
        _ => false,
    }
}

/// children (direct) of directory `dir` in the snapshot
pub fn children<'a>(snap: &'a Snap, dir: &[u8]) -> Vec<&'a Vec<u8>> {
    let mut pre = dir.to_vec();
    if !pre.is_empty() {
        pre.push(b'/');
    }
    snap.range(pre.clone()..)
        .take_while(|(k, _)| k.starts_with(&pre))
        .filter(|(k, _)| k.len() > pre.len() && !k[pre.len()..].contains(&b'/'))
        .map(|(k, _)| k)
        .collect()
}

/// all entries at or below `top` (no link following)
pub fn subtree<'a>(snap: &'a Snap, top: &[u8]) -> Vec<&'a Vec<u8>> {
    let mut pre = top.to_vec();
    pre.push(b'/');
    let mut v: Vec<&Vec<u8>> = vec![];
    if let Some((k, _)) = snap.get_key_value(top) {
        v.push(k);
    }
    for (k, _) in snap.range(pre.clone()..).take_while(|(k, _)| k.starts_with(&pre)) {
        v.push(k);
    }
    v
}

/// glob-crate-like matching of one path component: `*` any run (also leading dots), `?` one char.
pub fn comp_match(pat: &[u8], name: &[u8]) -> bool {
    // operate on chars for '?' (glob matches chars, names here are UTF-8 in glob cases)
    let p: Vec<char> = String::from_utf8_lossy(pat).chars().collect();
    let n: Vec<char> = String::from_utf8_lossy(name).chars().collect();
    fn m(p: &[char], n: &[char]) -> bool {
        match p.first() {
            None => n.is_empty(),
            Some('*') => (0..=n.len()).any(|i| m(&p[1..], &n[i..])),
            Some('?') => !n.is_empty() && m(&p[1..], &n[1..]),
            Some(c) => n.first() == Some(c) && m(&p[1..], &n[1..]),
        }
    }
    m(&p, &n)
}

/// Expand one glob pattern (wildcards only in the last component) against the snapshot.
pub fn glob_expand(snap: &Snap, root: &[u8], pattern: &[u8]) -> Vec<Vec<u8>> {
    let has_wild = |s: &[u8]| s.iter().any(|c| *c == b'*' || *c == b'?');
    if !has_wild(pattern) {
        // literal: exists (following links like glob's metadata check does not; glob uses lstat-ish existence)
        return match rel_to_root(root, pattern) {
            Some(r) if snap.contains_key(&r) => vec![pattern.to_vec()],
            _ => vec![],
        };
    }
    let dir = parent(pattern);
    let last = basename(pattern);
    let dir_rel = match rel_to_root(root, if dir.is_empty() { b"." } else { dir }) {
        Some(r) => r,
        None => return vec![],
    };
    let dir_real = match resolve(snap, root, &dir_rel, true) {
        Res::Found(p) => p,
        _ => return vec![],
    };
    let mut out = vec![];
    for ch in children(snap, &dir_real) {
        let name = basename(ch);
        if comp_match(last, name) {
            out.push(join(dir, name));
        }
    }
    out.sort();
    out
}

#[derive(Clone, Debug, PartialEq, Serialize)]
pub struct Mapped {
    #[serde(with = "bser")]
    pub src: Vec<u8>,
    #[serde(with = "bser")]
    pub dst: Vec<u8>,
    pub kind: K,
    /// the source argument index this entry belongs to
    pub arg: usize,
    /// true for the top entry of a source argument
    pub top: bool,
}

#[derive(Clone, Debug, PartialEq)]
pub enum Plan {
    /// invocation must be rejected: exit != 0 and nothing changes
    Reject(String),
    /// with --dereference: a link cannot be resolved => exit != 0 (destination state unspecified)
    MustFail(String),
    /// the model does not cover this shape (should not be generated)
    Unmodelled(String),
    Copy(Vec<Mapped>),
}

/// cp's mapping rule applied to the pre-state. `root` is the absolute sandbox root.
pub fn plan(pre: &Snap, root: &[u8], inv: &Inv) -> Plan {
    let d_rel = match rel_to_root(root, &inv.dest) {
        Some(r) => r,
        None => return Plan::Unmodelled("destination outside sandbox".into()),
    };
    let mut sources: Vec<Vec<u8>> = vec![];
    if inv.glob {
        for pat in &inv.sources {
            let e = glob_expand(pre, root, pat);
            if e.is_empty() {
                return Plan::Unmodelled("glob pattern without matches".into());
            }
            sources.extend(e);
        }
    } else {
        sources = inv.sources.clone();
    }
    if sources.is_empty() {
        return Plan::Reject("no sources".into());
    }
    let d_is_dir = is_dir_following(pre, root, &d_rel);
    let d_exists = matches!(resolve(pre, root, &d_rel, true), Res::Found(_));
    if sources.len() > 1 && !d_is_dir {
        return Plan::Reject("several sources, destination not a directory".into());
    }
    // canonical location of the destination itself
    let d_real: Vec<u8> = if d_exists {
        match resolve(pre, root, &d_rel, true) {
            Res::Found(p) => p,
            _ => unreachable!(),
        }
    } else {
        // parent must resolve; name is created
        let par = parent(&d_rel).to_vec();
        match resolve(pre, root, &par, true) {
            Res::Found(p) => {
                // a dangling symlink at the destination path itself: writing goes through it (excluded)
                if pre.get(&join(&p, basename(&d_rel))).map(|m| m.kind == K::L).unwrap_or(false) {
                    return Plan::Unmodelled("destination is a dangling symlink".into());
                }
                join(&p, basename(&d_rel))
            }
            _ => return Plan::Unmodelled("destination parent missing".into()),
        }
    };
    let mut mapped: Vec<Mapped> = vec![];
    // per source: (given in contents form, resolved location, last component)
    let mut tops: Vec<(bool, Vec<u8>, Vec<u8>)> = vec![];
    for (ai, s) in sources.iter().enumerate() {
        let s_rel = match rel_to_root(root, s) {
            Some(r) => r,
            None => return Plan::Unmodelled("source outside sandbox".into()),
        };
        // the source argument itself is looked at without following a final link (cp -R semantics),
        // but intermediate components are followed
        let s_real = {
            let par = parent(&s_rel).to_vec();
            match resolve(pre, root, &par, true) {
                Res::Found(p) => join(&p, basename(&s_rel)),
                _ => return Plan::Reject(format!("source {} missing", esc(s))),
            }
        };
        let sm = match pre.get(&s_real) {
            Some(m) => m,
            None => return Plan::Reject(format!("source {} missing", esc(s))),
        };
        let s_points_to_dir = is_dir_following(pre, root, &s_real);
        if sm.kind == K::L && !inv.deref {
            // existence is judged following the link by xcp; a dangling link source is "missing"
            if !matches!(resolve(pre, root, &s_real, true), Res::Found(_)) {
                return Plan::Reject("dangling symlink as a source".into());
            }
        }
        if s_points_to_dir && !inv.recursive {
            return Plan::Reject("directory without --recursive".into());
        }
        let b = basename(&s_rel).to_vec();
        if b.is_empty() || b == b".." || b == b"." {
            return Plan::Unmodelled("source without a normal last component".into());
        }
        // cp: a source spelled <dir>/. or <dir>/.. stands for that directory's contents and maps onto the
        // destination itself, never onto dest/<name> (and certainly not onto dest/..)
        let contents_form = {
            let mut raw: &[u8] = s;
            while raw.len() > 1 && raw.last() == Some(&b'/') {
                raw = &raw[..raw.len() - 1];
            }
            let last = basename(raw);
            last == b"." || last == b".."
        };
        tops.push((contents_form, s_real.clone(), b.clone()));
        let troot = if d_is_dir && !inv.no_target_dir && !contents_form { join(&d_real, &b) } else { d_real.clone() };
        if sm.kind == K::D && d_exists && !d_is_dir {
            return Plan::Reject("directory onto an existing non-directory".into());
        }
        if inv.deref {
            // resolved-tree model
            let mut stack: Vec<Vec<u8>> = vec![];
            if let Err(p) = deref_walk(pre, root, &s_real, &troot, ai, true, &mut stack, &mut mapped) {
                return p;
            }
        } else {
            let top_is_real_dir = sm.kind == K::D;
            if top_is_real_dir {
                for e in subtree(pre, &s_real) {
                    let rel = &e[s_real.len()..];
                    let rel = if rel.first() == Some(&b'/') { &rel[1..] } else { rel };
                    let dst = join(&troot, rel);
                    mapped.push(Mapped { src: e.clone(), dst, kind: pre[e].kind, arg: ai, top: rel.is_empty() });
                }
            } else {
                mapped.push(Mapped { src: s_real.clone(), dst: troot.clone(), kind: sm.kind, arg: ai, top: true });
            }
        }
    }
    // a source in contents form is merged into the destination itself: it must not bring an entry that
    // another source (by its name, or by an entry of its own if it is in contents form too) also maps there
    for (i, (cf, real, _)) in tops.iter().enumerate() {
        if !*cf {
            continue;
        }
        let dir = match resolve(pre, root, real, true) {
            Res::Found(p) => p,
            _ => continue,
        };
        let mine: Vec<Vec<u8>> = children(pre, &dir).iter().map(|c| basename(c).to_vec()).collect();
        for (j, (cf2, real2, base2)) in tops.iter().enumerate() {
            if i == j {
                continue;
            }
            let clash = if *cf2 {
                match resolve(pre, root, real2, true) {
                    Res::Found(p2) => children(pre, &p2).iter().any(|c| mine.iter().any(|n| n.as_slice() == basename(c))),
                    _ => false,
                }
            } else {
                mine.iter().any(|n| n == base2)
            };
            if clash {
                return Plan::Reject("sources overlap inside the destination".into());
            }
        }
    }
    // a regular file mapped onto a path that already holds a symbolic link is written *through* the link
    // (as cp does): the same excluded shape, one level down
    for m in &mapped {
        // (with --no-clobber nothing is written at all: those cases stay modelled, C08 needs them)
        if !inv.no_clobber && m.kind == K::F && pre.get(&m.dst).map(|x| x.kind == K::L).unwrap_or(false) {
            return Plan::Unmodelled("regular file mapped onto an existing symlink in the destination".into());
        }
    }
    // an intermediate destination component that is a symlink makes writes land elsewhere: excluded domain
    for m in &mapped {
        let mut p = parent(&m.dst).to_vec();
        while !p.is_empty() && p.len() >= d_real.len() {
            if pre.get(&p).map(|x| x.kind == K::L).unwrap_or(false) {
                return Plan::Unmodelled("symlink inside the destination at a mapped directory position".into());
            }
            p = parent(&p).to_vec();
        }
    }
    Plan::Copy(mapped)
}

fn deref_walk(
    pre: &Snap,
    root: &[u8],
    src: &[u8],
    dst: &[u8],
    arg: usize,
    top: bool,
    stack: &mut Vec<Vec<u8>>,
    out: &mut Vec<Mapped>,
) -> Result<(), Plan> {
    let real = match resolve(pre, root, src, true) {
        Res::Found(p) => p,
        Res::Missing => return Err(Plan::MustFail(format!("dangling link {}", esc(src)))),
        Res::Loop => return Err(Plan::MustFail(format!("link loop at {}", esc(src)))),
        Res::Outside => return Err(Plan::Unmodelled("link leaves the sandbox".into())),
    };
    let m = &pre[&real];
    out.push(Mapped { src: real.clone(), dst: dst.to_vec(), kind: m.kind, arg, top });
    if m.kind == K::D {
        if stack.contains(&real) {
            return Err(Plan::MustFail(format!("directory cycle through {}", esc(src))));
        }
        stack.push(real.clone());
        for ch in children(pre, &real) {
            let name = basename(ch);
            deref_walk(pre, root, &join(src, name), &join(dst, name), arg, false, stack, out)?;
        }
        stack.pop();
    }
    Ok(())
}

#[derive(Clone, Debug, Default)]
pub struct CmpOpts {
    /// compare mode bits of mapped regular files with the source's
    pub check_mode: bool,
    /// compare mtime of mapped regular files with the source's
    pub check_mtime: bool,
    /// names that may additionally appear (e.g. backups): predicate by path
    pub allow_new: Option<fn(&[u8]) -> bool>,
    /// destination entries that are mapped onto are allowed to keep pre-existing different kind? never.
    pub ignore_unmapped_changes_under: Option<Vec<u8>>,
}

/// Compare the post-state with the model's expectation for a successful run.
/// Returns a list of human-readable differences (empty = conforms).
pub fn compare_success(pre: &Snap, post: &Snap, mapped: &[Mapped], o: &CmpOpts) -> Vec<String> {
    let mut diffs = vec![];
    let mut targets: BTreeMap<&[u8], &Mapped> = BTreeMap::new();
    for m in mapped {
        // later mappings win (same order as the command line) – generators avoid duplicates anyway
        targets.insert(m.dst.as_slice(), m);
    }
    // directories that legitimately change (mtime/nlink/size) because entries are created in them
    let mut touched_dirs: BTreeSet<Vec<u8>> = BTreeSet::new();
    for m in mapped {
        touched_dirs.insert(parent(&m.dst).to_vec());
        if m.kind == K::D {
            touched_dirs.insert(m.dst.clone());
        }
    }
    for (dst, m) in &targets {
        let sm = &pre[&m.src];
        match post.get(*dst) {
            None => diffs.push(format!("missing: {} (from {})", esc(dst), esc(&m.src))),
            Some(pm) => {
                if pm.kind != sm.kind {
                    diffs.push(format!("kind: {} is {:?}, source {} is {:?}", esc(dst), pm.kind, esc(&m.src), sm.kind));
                    continue;
                }
                match sm.kind {
                    K::F => {
                        if pm.size != sm.size || pm.hash != sm.hash {
                            diffs.push(format!("content: {} (size {} vs source {})", esc(dst), pm.size, sm.size));
                        }
                        if o.check_mode && pm.mode != sm.mode {
                            diffs.push(format!("mode: {} is {:o}, source {:o}", esc(dst), pm.mode, sm.mode));
                        }
                        if o.check_mtime && pm.mtime != sm.mtime {
                            diffs.push(format!("mtime: {} is {:?}, source {:?}", esc(dst), pm.mtime, sm.mtime));
                        }
                    }
                    K::L => {
                        if pm.link != sm.link {
                            diffs.push(format!("link text: {} -> {:?}, source -> {:?}", esc(dst), pm.link, sm.link));
                        }
                    }
                    _ => {}
                }
            }
        }
    }
    // everything else unchanged; nothing new
    for (p, pm) in post {
        if targets.contains_key(p.as_slice()) {
            continue;
        }
        match pre.get(p) {
            None => {
                if let Some(f) = o.allow_new {
                    if f(p) {
                        continue;
                    }
                }
                diffs.push(format!("unexpected new entry: {} ({:?})", esc(p), pm.kind));
            }
            Some(om) => {
                if let Some(d) = meta_diff(om, pm, touched_dirs.contains(p)) {
                    diffs.push(format!("bystander changed: {}: {}", esc(p), d));
                }
            }
        }
    }
    for p in pre.keys() {
        if !post.contains_key(p) && !targets.contains_key(p.as_slice()) {
            diffs.push(format!("entry removed: {}", esc(p)));
        }
    }
    diffs
}

/// Field-by-field difference of an entry that must be unchanged. `dir_touched`: a directory in which
/// entries were legitimately created (mtime, nlink, size may change).
pub fn meta_diff(a: &Meta, b: &Meta, dir_touched: bool) -> Option<String> {
    let mut d = vec![];
    if a.kind != b.kind {
        d.push(format!("kind {:?}->{:?}", a.kind, b.kind));
    }
    if a.mode != b.mode {
        d.push(format!("mode {:o}->{:o}", a.mode, b.mode));
    }
    if a.uid != b.uid || a.gid != b.gid {
        d.push(format!("owner {}:{}->{}:{}", a.uid, a.gid, b.uid, b.gid));
    }
    if a.ino != b.ino {
        d.push("inode replaced".to_string());
    }
    if a.rdev != b.rdev {
        d.push("rdev".to_string());
    }
    if a.link != b.link {
        d.push(format!("link {:?}->{:?}", a.link, b.link));
    }
    if a.hash != b.hash {
        d.push("content".to_string());
    }
    if a.xattrs != b.xattrs {
        d.push("xattrs".to_string());
    }
    if !(a.kind == K::D && dir_touched) {
        if a.mtime != b.mtime {
            d.push(format!("mtime {:?}->{:?}", a.mtime, b.mtime));
        }
        if a.size != b.size {
            d.push(format!("size {}->{}", a.size, b.size));
        }
        if a.nlink != b.nlink {
            d.push(format!("nlink {}->{}", a.nlink, b.nlink));
        }
    }
    if d.is_empty() {
        None
    } else {
        Some(d.join(", "))
    }
}

/// Whole-snapshot equality modulo nothing (used for "must be rejected with no side effects").
pub fn snap_diff(pre: &Snap, post: &Snap) -> Vec<String> {
    let mut diffs = vec![];
    for (p, a) in pre {
        match post.get(p) {
            None => diffs.push(format!("removed: {}", esc(p))),
            Some(b) => {
                if let Some(d) = meta_diff(a, b, false) {
                    diffs.push(format!("changed: {}: {}", esc(p), d));
                }
            }
        }
    }
    for p in post.keys() {
        if !pre.contains_key(p) {
            diffs.push(format!("created: {}", esc(p)));
        }
    }
    diffs
}
