//! Small shared helpers: hashing, byte-string escaping, seed mixing.

use std::ffi::{CString, OsStr, OsString};
use std::os::unix::ffi::{OsStrExt, OsStringExt};
use std::path::{Path, PathBuf};

pub type Bytes = Vec<u8>;

pub fn fnv64(data: &[u8]) -> u64 {
    let mut h: u64 = 0xcbf29ce484222325;
    for b in data {
        h ^= *b as u64;
        h = h.wrapping_mul(0x100000001b3);
    }
    h
}

/// splitmix64 step; used to derive per-shard / per-property seeds from VERIF_SEED.
pub fn splitmix(mut x: u64) -> u64 {
    x = x.wrapping_add(0x9e3779b97f4a7c15);
    let mut z = x;
    z = (z ^ (z >> 30)).wrapping_mul(0xbf58476d1ce4e5b9);
    z = (z ^ (z >> 27)).wrapping_mul(0x94d049bb133111eb);
    z ^ (z >> 31)
}

pub fn mix_seed(seed: u64, id: &str, shard: u64) -> u64 {
    splitmix(splitmix(seed ^ fnv64(id.as_bytes())) ^ splitmix(shard.wrapping_mul(0x1234567)))
}

/// Two-lane word hash used for file contents (not adversarially strong; detects accidents).
#[derive(Clone, Copy)]
pub struct Hash2 {
    pub a: u64,
    pub b: u64,
}
impl Hash2 {
    pub fn new() -> Self {
        Hash2 { a: 0x243f6a8885a308d3, b: 0x13198a2e03707344 }
    }
    #[inline]
    pub fn word(&mut self, w: u64) {
        self.a = (self.a ^ w).wrapping_mul(0x9e3779b97f4a7c15).rotate_left(29);
        self.b = (self.b.rotate_left(17) ^ w).wrapping_mul(0xc2b2ae3d27d4eb4f);
    }
    pub fn bytes(&mut self, d: &[u8]) {
        let mut ch = d.chunks_exact(8);
        for c in &mut ch {
            self.word(u64::from_le_bytes(c.try_into().unwrap()));
        }
        let r = ch.remainder();
        if !r.is_empty() {
            let mut t = [0u8; 8];
            t[..r.len()].copy_from_slice(r);
            self.word(u64::from_le_bytes(t) ^ ((r.len() as u64) << 56));
        }
    }
    pub fn fin(&self) -> (u64, u64) {
        (splitmix(self.a), splitmix(self.b ^ self.a))
    }
}

/// Escape arbitrary bytes into a printable JSON-friendly string. Printable ASCII except '\\' is kept,
/// valid UTF-8 multi-byte sequences are kept, everything else becomes \xHH.
pub fn esc(b: &[u8]) -> String {
    let mut out = String::new();
    let mut i = 0;
    while i < b.len() {
        let c = b[i];
        if c == b'\\' {
            out.push_str("\\\\");
            i += 1;
        } else if (0x20..0x7f).contains(&c) {
            out.push(c as char);
            i += 1;
        } else if c >= 0x80 {
            // try to decode one UTF-8 scalar
            let l = if c >= 0xf0 { 4 } else if c >= 0xe0 { 3 } else if c >= 0xc0 { 2 } else { 0 };
            if l > 0 && i + l <= b.len() {
                if let Ok(s) = std::str::from_utf8(&b[i..i + l]) {
                    out.push_str(s);
                    i += l;
                    continue;
                }
            }
            out.push_str(&format!("\\x{:02x}", c));
            i += 1;
        } else {
            out.push_str(&format!("\\x{:02x}", c));
            i += 1;
        }
    }
    out
}

pub fn unesc(s: &str) -> Vec<u8> {
    let b = s.as_bytes();
    let mut out = Vec::new();
    let mut i = 0;
    while i < b.len() {
        if b[i] == b'\\' && i + 1 < b.len() {
            if b[i + 1] == b'\\' {
                out.push(b'\\');
                i += 2;
                continue;
            }
            if b[i + 1] == b'x' && i + 3 < b.len() {
                if let Ok(v) = u8::from_str_radix(&s[i + 2..i + 4], 16) {
                    out.push(v);
                    i += 4;
                    continue;
                }
            }
        }
        out.push(b[i]);
        i += 1;
    }
    out
}

pub mod bser {
    //! serde adaptor: Vec<u8> <-> escaped string
    use serde::{Deserialize, Deserializer, Serializer};
    pub fn serialize<S: Serializer>(v: &Vec<u8>, s: S) -> Result<S::Ok, S::Error> {
        s.serialize_str(&super::esc(v))
    }
    pub fn deserialize<'de, D: Deserializer<'de>>(d: D) -> Result<Vec<u8>, D::Error> {
        let s = String::deserialize(d)?;
        Ok(super::unesc(&s))
    }
}
pub mod bser_vec {
    use serde::ser::SerializeSeq;
    use serde::{Deserialize, Deserializer, Serializer};
    pub fn serialize<S: Serializer>(v: &Vec<Vec<u8>>, s: S) -> Result<S::Ok, S::Error> {
        let mut q = s.serialize_seq(Some(v.len()))?;
        for e in v {
            q.serialize_element(&super::esc(e))?;
        }
        q.end()
    }
    pub fn deserialize<'de, D: Deserializer<'de>>(d: D) -> Result<Vec<Vec<u8>>, D::Error> {
        let s = Vec::<String>::deserialize(d)?;
        Ok(s.iter().map(|x| super::unesc(x)).collect())
    }
}

pub fn p(b: &[u8]) -> &Path {
    Path::new(OsStr::from_bytes(b))
}
pub fn pb(b: &[u8]) -> PathBuf {
    PathBuf::from(OsString::from_vec(b.to_vec()))
}
pub fn pbytes(p: &Path) -> Vec<u8> {
    p.as_os_str().as_bytes().to_vec()
}
pub fn cstr(b: &[u8]) -> CString {
    CString::new(b.to_vec()).expect("no NUL in path")
}
pub fn join(a: &[u8], b: &[u8]) -> Vec<u8> {
    if a.is_empty() {
        return b.to_vec();
    }
    if b.is_empty() {
        return a.to_vec();
    }
    let mut v = a.to_vec();
    if *v.last().unwrap() != b'/' {
        v.push(b'/');
    }
    v.extend_from_slice(b);
    v
}
pub fn parent(a: &[u8]) -> &[u8] {
    match a.iter().rposition(|c| *c == b'/') {
        Some(0) => &a[..1],
        Some(i) => &a[..i],
        None => b"",
    }
}
pub fn basename(a: &[u8]) -> &[u8] {
    match a.iter().rposition(|c| *c == b'/') {
        Some(i) => &a[i + 1..],
        None => a,
    }
}

/// Lexical normalisation of an absolute or relative path against `cwd` (absolute).
/// Removes `.`, resolves `..` lexically, removes duplicate and trailing slashes.
pub fn lex_norm(cwd: &[u8], path: &[u8]) -> Vec<u8> {
    let mut comps: Vec<&[u8]> = Vec::new();
    let full: Vec<u8> = if path.first() == Some(&b'/') { path.to_vec() } else { join(cwd, path) };
    for c in full.split(|c| *c == b'/') {
        if c.is_empty() || c == b"." {
            continue;
        }
        if c == b".." {
            comps.pop();
            continue;
        }
        comps.push(c);
    }
    let mut out = Vec::new();
    for c in comps {
        out.push(b'/');
        out.extend_from_slice(c);
    }
    if out.is_empty() {
        out.push(b'/');
    }
    out
}

pub fn errno() -> i32 {
    std::io::Error::last_os_error().raw_os_error().unwrap_or(0)
}

pub fn monotonic_index(i: u16, len: usize) -> usize {
    // maps 0..=65535 monotonically onto 0..len (len>0)
    ((i as usize) * len) >> 16
}
