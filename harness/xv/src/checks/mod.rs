//! One module per property: generator + oracle + classifier.

use crate::engine::*;
use serde_json::Value;

pub mod gen;
pub mod c01;
pub mod c02;
pub mod c03;
pub mod c04;
pub mod c05;
pub mod c06;
pub mod c07;
pub mod c08;
pub mod c09;
pub mod c10;
pub mod c11;
pub mod c12;
pub mod c13;
pub mod c14;
pub mod c15;
pub mod c16;
pub mod c17;
pub mod c18;
pub mod c19;
pub mod c20;
pub mod tree;

#[derive(Clone, Copy, Debug, Default)]
pub struct Needs {
    pub xcp: bool,
    pub probe: bool,
    pub fallback: bool,
}

pub trait Check {
    fn id(&self) -> &'static str;
    /// evidence level: "exploration" or "fault_enumeration"
    fn level(&self) -> &'static str {
        "exploration"
    }
    fn rule(&self) -> String;
    fn assumptions(&self) -> Vec<String> {
        vec![]
    }
    fn needs(&self) -> Needs {
        Needs { xcp: true, probe: false, fallback: false }
    }
    fn shards(&self, _tier: Tier) -> usize {
        16
    }
    fn run_shard(&self, ctx: &Ctx, rec: &mut Rec);
    fn replay(&self, ctx: &Ctx, sub: &str, case: &Value) -> Verdict;
    /// fewer distinct non-trivial cases than this => the run is reported vacuous (exit 2)
    fn min_nontrivial(&self, _tier: Tier) -> usize {
        10
    }
    /// substrings each of which must occur in at least one class key, else GENERATOR-GAP (exit 2)
    fn required_classes(&self, _tier: Tier) -> Vec<String> {
        vec![]
    }
}

pub fn get(id: &str) -> Option<Box<dyn Check>> {
    match id {
        "C01" => Some(Box::new(c01::C01)),
        "C02" => Some(Box::new(c02::C02)),
        "C03" => Some(Box::new(c03::C03)),
        "C04" => Some(Box::new(c04::C04)),
        "C05" => Some(Box::new(c05::C05)),
        "C06" => Some(Box::new(c06::C06)),
        "C07" => Some(Box::new(c07::C07)),
        "C08" => Some(Box::new(c08::C08)),
        "C09" => Some(Box::new(c09::C09)),
        "C10" => Some(Box::new(c10::C10)),
        "C11" => Some(Box::new(c11::C11)),
        "C12" => Some(Box::new(c12::C12)),
        "C13" => Some(Box::new(c13::C13)),
        "C14" => Some(Box::new(c14::C14)),
        "C15" => Some(Box::new(c15::C15)),
        "C16" => Some(Box::new(c16::C16)),
        "C17" => Some(Box::new(c17::C17)),
        "C18" => Some(Box::new(c18::C18)),
        "C19" => Some(Box::new(c19::C19)),
        "C20" => Some(Box::new(c20::C20)),
        _ => None,
    }
}
