//! C20 — open descriptors stay bounded regardless of how many files are copied.

use super::c06::sup_spec;
use super::{Check, Needs};
use crate::engine::*;
use crate::model::{self, Inv, Plan};
use crate::run::*;
use crate::sandbox::*;
use crate::spec::*;
use crate::sup::*;
use crate::util::*;
use proptest::prelude::*;
use serde::{Deserialize, Serialize};
use serde_json::{json, Value};

pub struct C20;

#[derive(Clone, Debug, Serialize, Deserialize)]
pub struct Case {
    pub nfiles: u32,
    pub ndirs: u8,
    pub workers: u8,
    pub parblock: bool,
    /// 0 unsupervised, 1 walker-first, 2 starved worker, 3 random, 4 workers-first
    pub sched: u8,
    pub seed: u64,
    pub multi_block: bool,
    /// additionally a chain of this many nested directories (0 = none) with a file every 100 levels
    #[serde(default)]
    pub depth: u16,
    /// options that must not change the descriptor bound: bit0 --fsync, 1 --no-perms, 2 --no-timestamps, 3 --ownership, 4 --backup=numbered
    #[serde(default)]
    pub extra: u8,
}

pub fn strategy(max_n: u32) -> BoxedStrategy<Case> {
    (
        prop_oneof![Just(600u32), Just(1500u32), Just(3000u32), Just(max_n)],
        1u8..6,
        prop_oneof![Just(1u8), Just(4u8), Just(64u8)],
        any::<bool>(),
        prop_oneof![2 => Just(0u8), 4 => Just(1u8), 2 => Just(2u8), 1 => Just(3u8), 1 => Just(4u8)],
        any::<u64>(),
        prop::bool::weighted(0.3),
        prop_oneof![3 => Just(0u16), 1 => Just(300u16), 2 => Just(1100u16)],
        prop_oneof![2 => Just(0u8), 2 => Just(1u8), 2 => 0u8..32],
    )
        .prop_map(|(nfiles, ndirs, workers, parblock, sched, seed, multi_block, depth, extra)| Case { nfiles: if depth > 0 { std::cmp::min(nfiles, 600) } else { nfiles }, ndirs, workers, parblock, sched, seed, multi_block, depth, extra })
        .boxed()
}

pub fn judge(c: &Case, rec: &mut Rec) -> Verdict {
    let sb = match Sandbox::new() {
        Ok(s) => s,
        Err(e) => return Verdict::Inconclusive(format!("sandbox: {e}")),
    };
    let root = sb.rootb();
    let mut ents = vec![Ent::dir(b"s"), Ent::dir(b"d")];
    for d in 0..c.ndirs {
        ents.push(Ent::dir(format!("s/dir{}", d).as_bytes()));
    }
    for i in 0..c.nfiles {
        let d = i % c.ndirs as u32;
        let len = if c.multi_block && i % 97 == 0 { 9000 } else { (i % 50) as u64 };
        ents.push(Ent::file(format!("s/dir{}/f{}", d, i).as_bytes(), Content::data(len, (i % 250) as u8)));
    }
    if c.depth > 0 {
        let mut p = b"s/deep".to_vec();
        ents.push(Ent::dir(&p));
        for lvl in 0..c.depth {
            p.extend_from_slice(b"/n");
            ents.push(Ent::dir(&p));
            if lvl % 100 == 99 {
                ents.push(Ent::file(&[p.as_slice(), b"/f"].concat(), Content::data(7, 3)));
            }
        }
    }
    if let Err(e) = materialise(&sb.root, &ents) {
        return Verdict::Inconclusive(format!("materialise: {e}"));
    }
    let mut inv = Inv::default();
    inv.parblock = c.parblock;
    inv.workers = c.workers;
    inv.recursive = true;
    inv.block = if c.multi_block { Some(4096) } else { None };
    inv.fsync = c.extra & 1 != 0;
    inv.no_perms = c.extra & 2 != 0;
    inv.no_timestamps = c.extra & 4 != 0;
    inv.ownership = c.extra & 8 != 0;
    if c.extra & 16 != 0 {
        inv.backup = "numbered".into();
    }
    inv.sources = vec![b"s".to_vec()];
    inv.dest = b"d".to_vec();
    let pre = match snapshot(&sb.root) {
        Ok(s) => s,
        Err(e) => return Verdict::Inconclusive(format!("snapshot: {e}")),
    };
    let mapped = match model::plan(&pre, &root, &inv) {
        Plan::Copy(m) => m,
        _ => return Verdict::Inconclusive("plan".into()),
    };
    let kind = match c.sched {
        1 => SchedKind::WalkerFirst,
        2 => SchedKind::StarveWorker((c.seed % 4) as usize),
        3 => SchedKind::Random,
        4 => SchedKind::WorkersFirst,
        _ => SchedKind::Free,
    };
    let (ok, code, timed_out, stderr, peak, emfile) = if c.sched == 0 {
        let mut spec = RunSpec::xcp(inv.argv(), &sb.root, &sb.out);
        spec.nofile = Some(1024);
        spec.timeout = std::time::Duration::from_secs(120);
        let o = run_plain(&spec);
        let em = o.stderr_s().contains("Too many open files");
        (o.ok(), o.code, o.timed_out, o.stderr_s(), -1i64, em)
    } else {
        let mut spec = sup_spec(&sb, inv.argv(), vec![], Sched { kind, seed: c.seed, change_points: vec![], parblock: c.parblock });
        spec.nofile = Some(1024);
        spec.timeout = std::time::Duration::from_secs(300);
        let o = Sup::run(spec);
        if o.setup_error.is_some() {
            return Verdict::Inconclusive(format!("supervisor {:?}", o.setup_error));
        }
        let em = o.log.iter().any(|e| e.errno() == libc::EMFILE);
        (o.ok(), o.code, o.timed_out, o.stderr_s(), o.peak_fds as i64, em)
    };
    rec.eval(1);
    if timed_out {
        return Verdict::Inconclusive("watchdog".into());
    }
    let driver = inv.driver();
    let sched_name = format!("{:?}", kind).split('(').next().unwrap_or("").to_string();
    if c.depth > 0 {
        rec.class(format!("depth={}|{}", c.depth, driver));
    }
    if c.extra & 1 != 0 {
        rec.class(format!("fsync|{}", driver));
    }
    let key = format!("{}|n={}|w{}|{}|exit={}", driver, c.nfiles, c.workers, if c.sched == 0 { "unsupervised".to_string() } else { sched_name.clone() }, if ok { "0" } else { "!0" });
    rec.class(key);
    if peak >= 0 {
        rec.max(&format!("max_peak_fds_{}_w{}", driver, c.workers), peak);
        rec.max(&format!("max_peak_fds_{}_w{}_n{}", driver, c.workers, c.nfiles), peak);
    }
    rec.sample(json!({"argv": inv.argv_s(), "files": c.nfiles, "dirs": c.ndirs, "schedule": if c.sched == 0 { "unsupervised".to_string() } else { sched_name.clone() }, "rlimit_nofile": 1024, "exit": code, "peak_open_descriptors": peak}));
    if !ok {
        return Verdict::faild(
            format!("C20|{}|{}", driver, if emfile { "EMFILE" } else { "failed" }),
            format!("copy of {} small files with {} workers under RLIMIT_NOFILE=1024 ({}) exited {:?}{}", c.nfiles, c.workers, sched_name, code, if emfile { " after running out of descriptors" } else { "" }),
            json!({"argv": inv.argv_s(), "stderr": stderr, "peak_fds": peak}),
        );
    }
    rec.nontrivial(case_hash(c));
    let post = match snapshot(&sb.root) {
        Ok(s) => s,
        Err(e) => return Verdict::Inconclusive(format!("snapshot: {e}")),
    };
    let diffs = model::compare_success(&pre, &post, &mapped, &model::CmpOpts::default());
    if !diffs.is_empty() {
        return Verdict::faild(format!("C20|{}|incomplete", driver), format!("exit 0 but tree incomplete: {}", diffs.iter().take(3).cloned().collect::<Vec<_>>().join("; ")), json!({"argv": inv.argv_s()}));
    }
    Verdict::Pass
}

impl Check for C20 {
    fn id(&self) -> &'static str {
        "C20"
    }
    fn rule(&self) -> String {
        "generated (N in {600, 1500, 3000} (thorough: up to 30000) small files spread over 1-5 directories, some multi-block, optionally plus a chain of 300/1100 nested directories, workers in {1,4,64}, driver, schedule) run with RLIMIT_NOFILE=1024 set in the child: unsupervised, and under the ptrace scheduler with walker > dispatcher > main > pool (queues fill up while the pool is held back), one starved worker, random priorities, workers-first. Oracle (judged): exit 0 and the destination tree complete by the reference model; with N > 512 an in-flight set proportional to N would hit EMFILE. Reported, not judged: the supervisor's exact peak number of simultaneously open descriptors per (driver, workers, N), so a reader can see it is flat in N. Every case is non-trivial (N >= 600); distinct by case hash.".into()
    }
    fn needs(&self) -> Needs {
        Needs { xcp: true, probe: false, fallback: false }
    }
    fn run_shard(&self, ctx: &Ctx, rec: &mut Rec) {
        match ctx.tier {
            Tier::Quick => prop_loop(ctx, rec, "gen", strategy(3000), ctx.share(48), judge),
            Tier::Thorough => prop_loop(ctx, rec, "gen", strategy(30000), ctx.share(300), judge),
        }
    }
    fn replay(&self, _ctx: &Ctx, _sub: &str, case: &Value) -> Verdict {
        match serde_json::from_value::<Case>(case.clone()) {
            Ok(c) => judge(&c, &mut Rec::default()),
            Err(e) => Verdict::Inconclusive(format!("bad case: {e}")),
        }
    }
    fn min_nontrivial(&self, tier: Tier) -> usize {
        match tier {
            Tier::Quick => 24,
            Tier::Thorough => 150,
        }
    }
    fn required_classes(&self, _tier: Tier) -> Vec<String> {
        ["parblock|", "parfile|", "WalkerFirst", "w64|", "n=3000", "depth=1100|parfile", "depth=1100|parblock", "fsync|parfile", "fsync|parblock"].iter().map(|s| s.to_string()).collect()
    }
}
