//! C11 — holes stay holes: sparse files are copied without materialising them.

use super::{Check, Needs};
use crate::engine::*;
use crate::run::*;
use crate::sandbox::*;
use crate::spec::*;
use crate::util::*;
use proptest::prelude::*;
use serde::{Deserialize, Serialize};
use serde_json::{json, Value};
use std::os::unix::io::AsRawFd;

pub struct C11;

#[derive(Clone, Debug, Serialize, Deserialize)]
pub struct Case {
    /// (data length in bytes, following hole in MiB)
    pub segs: Vec<(u32, u8)>,
    pub lead_hole_mib: u8,
    /// data offsets unaligned by this many bytes
    pub skew: u16,
    /// None: default; else block size in bytes
    pub block: Option<u64>,
    pub parblock: bool,
    pub workers: u8,
    /// pre-existing fully allocated destination of this many MiB
    pub prior_mib: u8,
    pub sync: bool,
    pub no_progress: bool,
    /// source and destination on tmpfs (/dev/shm): holes are reported by SEEK_DATA/SEEK_HOLE, FIEMAP is unsupported
    #[serde(default)]
    pub tmpfs: bool,
    /// copy_file_range unavailable (1 EXDEV, 2 ENOSYS, 3 EPERM, injected by the supervisor): the user-space
    /// fallback copies the data segments and must not write into the holes either
    #[serde(default)]
    pub cfr: u8,
}

pub fn strategy() -> BoxedStrategy<Case> {
    let seg = (prop_oneof![3 => 1u32..5000, 3 => 4096u32..70000, 2 => 100_000u32..262_144, 1 => Just(4096u32), 1 => Just(1u32)], prop_oneof![4 => 1u8..4, 2 => 4u8..17, 1 => 17u8..65]);
    let nsegs = prop_oneof![1 => 0usize..1, 2 => 1usize..2, 5 => 2usize..33, 3 => 33usize..101];
    (
        nsegs.prop_flat_map(move |n| prop::collection::vec(seg.clone(), n..=n)),
        prop_oneof![3 => Just(0u8), 2 => 1u8..9, 1 => 9u8..65],
        prop_oneof![2 => Just(0u16), 1 => 1u16..4096],
        prop_oneof![2 => Just(None), 1 => Just(Some(4096u64)), 1 => Just(Some(65536u64)), 1 => Just(Some(1u64 << 20)), 1 => Just(Some(64u64 << 20)), 1 => Just(Some(1000u64))],
        any::<bool>(),
        prop_oneof![3 => 1u8..5, 2 => 5u8..17],
        prop_oneof![3 => Just(0u8), 1 => 1u8..9],
        any::<bool>(),
        prop::bool::weighted(0.15),
        prop::bool::weighted(0.15),
        prop_oneof![7 => Just(0u8), 1 => 1u8..4],
    )
        .prop_map(|(segs, lead_hole_mib, skew, block, parblock, workers, prior_mib, sync, no_progress, tmpfs, cfr)| Case { segs, lead_hole_mib, skew, block, parblock, workers, prior_mib, sync, no_progress, tmpfs, cfr })
        .boxed()
}

const MIB: u64 = 1 << 20;

pub fn content_of(c: &Case) -> (Content, u64) {
    // cap: real data <= 4 MiB, apparent size <= 1 GiB (holes are shrunk to >= 1 MiB each)
    let mut data_total = 0u64;
    let nsegs = c.segs.len() as u64;
    let hole_budget = if c.workers % 5 == 0 { 1024 * MIB } else { 200 * MIB };
    let hole_sum: u64 = c.segs.iter().map(|s| s.1 as u64 * MIB).sum::<u64>() + c.lead_hole_mib as u64 * MIB;
    let scale = if hole_sum > hole_budget { hole_budget as f64 / hole_sum as f64 } else { 1.0 };
    let mut segs = vec![];
    let mut min_hole = u64::MAX;
    if c.lead_hole_mib > 0 {
        let h = std::cmp::max(MIB, ((c.lead_hole_mib as u64 * MIB) as f64 * scale) as u64 / MIB * MIB) + c.skew as u64;
        segs.push(Seg::Hole(h));
        min_hole = min_hole.min(h);
    } else if c.skew > 0 && nsegs > 0 {
        // data at the very start; skew applies from the second segment on
    }
    for (i, (dl, hm)) in c.segs.iter().enumerate() {
        let mut dl = *dl as u64;
        if data_total + dl > 4 * MIB {
            dl = (4 * MIB).saturating_sub(data_total);
        }
        if dl == 0 {
            dl = 1;
        }
        data_total += dl;
        segs.push(Seg::Data(dl, (i % 200) as u8));
        let h = std::cmp::max(MIB, ((*hm as u64 * MIB) as f64 * scale) as u64 / MIB * MIB) + if i % 2 == 0 { c.skew as u64 } else { 0 };
        // the last hole is a trailing hole for every other case
        if i + 1 < c.segs.len() || *hm % 2 == 0 {
            segs.push(Seg::Hole(h));
            min_hole = min_hole.min(h);
        }
    }
    if segs.is_empty() {
        // entirely empty (all hole)
        segs.push(Seg::Hole(std::cmp::max(1, c.lead_hole_mib as u64) * 4 * MIB));
        min_hole = 4 * MIB;
    }
    (Content { segs, sync: c.sync }, min_hole)
}

pub fn args_for(c: &Case) -> Vec<Vec<u8>> {
    let s = |x: &str| x.as_bytes().to_vec();
    let mut a = vec![s("--driver"), s(if c.parblock { "parblock" } else { "parfile" }), s("--workers"), c.workers.to_string().into_bytes()];
    if let Some(b) = c.block {
        a.extend([s("--block-size"), b.to_string().into_bytes()]);
    }
    if c.no_progress {
        a.push(s("--no-progress"));
    }
    a.extend([s("src"), s("dst")]);
    a
}

/// the filesystem under the sandbox parent must support SEEK_HOLE and FIEMAP, else the property is void
pub fn capability_probe() -> Result<(), String> {
    let sb = Sandbox::new().map_err(|e| e.to_string())?;
    let p = sb.abs(b"probe");
    write_content(&p, &Content { segs: vec![Seg::Data(4096, 1), Seg::Hole(4 * MIB), Seg::Data(4096, 2)], sync: true }).map_err(|e| e.to_string())?;
    let f = std::fs::File::open(&p).map_err(|e| e.to_string())?;
    let h = unsafe { libc::lseek(f.as_raw_fd(), 0, libc::SEEK_HOLE) };
    if h != 4096 {
        return Err(format!("SEEK_HOLE not supported here (got {})", h));
    }
    let m = stat_one(&p, false).map_err(|e| e.to_string())?;
    if m.blocks * 512 > 64 * 1024 {
        return Err("filesystem does not keep holes".into());
    }
    Ok(())
}

pub fn judge(c: &Case, rec: &mut Rec) -> Verdict {
    let sb = match if c.tmpfs { Sandbox::new_in("/dev/shm") } else { Sandbox::new() } {
        Ok(s) => s,
        Err(e) => return Verdict::Inconclusive(format!("sandbox: {e}")),
    };
    let (content, min_hole) = content_of(c);
    let nsegs = content.segs.iter().filter(|s| matches!(s, Seg::Data(..))).count();
    let mut ents = vec![Ent::file(b"src", content.clone())];
    if c.prior_mib > 0 {
        ents.push(Ent::file(b"dst", Content { segs: vec![Seg::Data(c.prior_mib as u64 * MIB, 77)], sync: true }));
    }
    if let Err(e) = materialise(&sb.root, &ents) {
        return Verdict::Inconclusive(format!("materialise: {e}"));
    }
    let args = args_for(c);
    struct Out {
        okf: bool,
        timed_out: bool,
    }
    impl Out {
        fn ok(&self) -> bool {
            self.okf
        }
    }
    let out = if c.cfr % 4 != 0 {
        use crate::sup::*;
        let errno = [0, libc::EXDEV, libc::ENOSYS, libc::EPERM][c.cfr as usize % 4];
        let rule = Rule { sys: vec![Sys::CopyFileRange], path: PathSel::Sandbox, nth: Nth::All, action: Action::Errno(errno) };
        let mut spec = super::c06::sup_spec(&sb, args.clone(), vec![rule], Sched::free());
        spec.timeout = std::time::Duration::from_secs(180);
        let o = Sup::run(spec);
        if o.setup_error.is_some() {
            return Verdict::Inconclusive(format!("supervisor {:?}", o.setup_error));
        }
        rec.class(format!("copy_file_range-unavailable|errno{}|{}|exit={}", errno, if c.parblock { "parblock" } else { "parfile" }, if o.ok() { "0" } else { "!0" }));
        Out { okf: o.ok(), timed_out: o.timed_out }
    } else {
        let mut spec = RunSpec::xcp(args.clone(), &sb.root, &sb.out);
        spec.timeout = std::time::Duration::from_secs(120);
        let o = run_plain(&spec);
        Out { okf: o.ok(), timed_out: o.timed_out }
    };
    rec.eval(1);
    if out.timed_out {
        return Verdict::Inconclusive("watchdog".into());
    }
    let driver = if c.parblock { "parblock" } else { "parfile" };
    let len = content.len();
    let bs = if c.no_progress { u64::MAX } else { c.block.unwrap_or(1_000_000) };
    let maxdata = content.segs.iter().map(|s| if let Seg::Data(l, _) = s { *l } else { 0 }).max().unwrap_or(0);
    let edge = match (matches!(content.segs.first(), Some(Seg::Hole(_))), matches!(content.segs.last(), Some(Seg::Hole(_)))) {
        (true, true) => if nsegs == 0 { "empty" } else { "lead+trail" },
        (true, false) => "lead",
        (false, true) => "trail",
        _ => "inner",
    };
    let key = format!(
        "{}|segs={}|{}|{}|{}|{}|exit={}",
        driver,
        match nsegs { 0 => "0", 1 => "1", 2..=32 => "2-32", _ => ">32" },
        edge,
        if bs < maxdata { "block<segment" } else if bs < min_hole { "block<hole" } else { "block>hole" },
        if c.prior_mib > 0 { "prior-allocated" } else { "fresh" },
        if c.skew > 0 { "unaligned" } else { "aligned" },
        if out.ok() { "0" } else { "!0" }
    );
    let new = rec.class(key);
    if c.tmpfs {
        rec.class(format!("on-tmpfs|{}|segs={}|exit={}", driver, std::cmp::min(nsegs, 2), if out.ok() { "0" } else { "!0" }));
    }
    if !out.ok() {
        rec.count("exit_nonzero", 1);
        return Verdict::Pass;
    }
    rec.nontrivial(case_hash(c));
    let sm = match stat_one(&sb.abs(b"src"), true) {
        Ok(m) => m,
        Err(e) => return Verdict::Inconclusive(format!("stat: {e}")),
    };
    let dm = match stat_one(&sb.abs(b"dst"), true) {
        Ok(m) => m,
        Err(_) => return Verdict::faild(format!("C11|{}|missing", driver), "exit 0 but no destination".to_string(), json!({"argv": args.iter().map(|a| esc(a)).collect::<Vec<_>>()})),
    };
    let slack = std::cmp::max(64 * 1024, 8 * 1024 * nsegs as u64);
    if new {
        rec.sample(json!({"argv": args.iter().map(|a| esc(a)).collect::<Vec<_>>(), "apparent_size": len, "data_segments": nsegs, "smallest_hole": min_hole, "src_allocated": sm.blocks * 512, "dst_allocated": dm.blocks * 512, "slack": slack}));
    }
    rec.max("max_extra_allocation_bytes", (dm.blocks as i64 - sm.blocks as i64) * 512);
    if dm.size != sm.size || dm.hash != sm.hash {
        return Verdict::faild(format!("C11|{}|content", driver), format!("exit 0 but sparse copy differs (size {} vs {})", dm.size, sm.size), json!({"argv": args.iter().map(|a| esc(a)).collect::<Vec<_>>()}));
    }
    if dm.blocks * 512 > sm.blocks * 512 + slack {
        return Verdict::faild(
            format!("C11|{}|holes-materialised", driver),
            format!("destination allocates {} bytes, source {} (+slack {}); apparent size {}, smallest hole {}", dm.blocks * 512, sm.blocks * 512, slack, len, min_hole),
            json!({"argv": args.iter().map(|a| esc(a)).collect::<Vec<_>>(), "segments": nsegs, "prior_mib": c.prior_mib}),
        );
    }
    Verdict::Pass
}

/// the same layouts through the public libfs API (Linux backend): copy_file and copy_sparse
fn judge_libfs(c: &Case, rec: &mut Rec) -> Verdict {
    let sb = match Sandbox::new() {
        Ok(s) => s,
        Err(e) => return Verdict::Inconclusive(format!("sandbox: {e}")),
    };
    let (content, min_hole) = content_of(c);
    let nsegs = content.segs.iter().filter(|s| matches!(s, Seg::Data(..))).count();
    let mut ents = vec![Ent::file(b"src", content.clone())];
    if c.prior_mib > 0 {
        ents.push(Ent::file(b"dst", Content { segs: vec![Seg::Data(c.prior_mib as u64 * MIB, 77)], sync: true }));
    }
    if let Err(e) = materialise(&sb.root, &ents) {
        return Verdict::Inconclusive(format!("materialise: {e}"));
    }
    let op = if c.parblock { "copy_file" } else { "sparse" };
    let mut spec = RunSpec::xcp(vec![b"fscopy".to_vec(), op.as_bytes().to_vec(), b"src".to_vec(), b"dst".to_vec()], &sb.root, &sb.out);
    spec.bin = std::path::PathBuf::from(PROBE_BIN);
    spec.timeout = std::time::Duration::from_secs(120);
    let out = run_plain(&spec);
    rec.eval(1);
    if out.timed_out {
        return Verdict::Inconclusive("watchdog".into());
    }
    rec.class(format!("libfs|{}|segs={}|exit={}", op, match nsegs { 0 => "0", 1 => "1", 2..=32 => "2-32", _ => ">32" }, if out.ok() { "0" } else { "!0" }));
    if !out.ok() {
        return Verdict::Pass;
    }
    rec.nontrivial(case_hash(&(c, "libfs")));
    let sm = match stat_one(&sb.abs(b"src"), true) {
        Ok(m) => m,
        Err(e) => return Verdict::Inconclusive(format!("stat: {e}")),
    };
    let dm = match stat_one(&sb.abs(b"dst"), true) {
        Ok(m) => m,
        Err(_) => return Verdict::faild(format!("C11|libfs|{}|missing", op), "Ok but no destination".to_string(), json!({"op": op})),
    };
    let slack = std::cmp::max(64 * 1024, 8 * 1024 * nsegs as u64);
    if dm.size != sm.size || dm.hash != sm.hash {
        return Verdict::faild(format!("C11|libfs|{}|content", op), format!("libfs::{} returned Ok but the copy differs", op), json!({"op": op, "segments": content.segs.iter().take(8).collect::<Vec<_>>()}));
    }
    if dm.blocks * 512 > sm.blocks * 512 + slack {
        return Verdict::faild(
            format!("C11|libfs|{}|holes-materialised", op),
            format!("libfs::{}: destination allocates {} bytes, source {} (+slack {}); smallest hole {}", op, dm.blocks * 512, sm.blocks * 512, slack, min_hole),
            json!({"op": op, "segments": content.segs.iter().take(8).collect::<Vec<_>>()}),
        );
    }
    Verdict::Pass
}

impl Check for C11 {
    fn id(&self) -> &'static str {
        "C11"
    }
    fn rule(&self) -> String {
        "proptest-generated sparse files on ext4 and (one case in seven) on tmpfs, where holes are reported by SEEK_DATA/SEEK_HOLE but FIEMAP is unsupported; in an eighth of the cases copy_file_range is unavailable (EXDEV/ENOSYS/EPERM injected) so that the user-space fallback does the copying: 0-100 data segments of 1 B..256 KiB (non-zero bytes, at most 4 MiB in total) separated by holes of 1-64 MiB (apparent size up to ~1 GiB), leading / trailing / interleaved holes and entirely empty files, offsets aligned or skewed by 1..4095 bytes, more than 32 extents in a quarter of the cases; block size 1000 B, 4 KiB, 64 KiB, 1 MiB, 64 MiB, default or --no-progress; both drivers; workers 1-16; destination fresh or a pre-existing fully allocated file of 1-8 MiB; source fsync'ed or not. Oracle on exit 0: same length and bytes (hole-independent hash), and st_blocks*512 of the destination <= that of the source + max(64 KiB, 8 KiB x segments), which is below the smallest generated hole (1 MiB), so materialising even one hole trips it. Non-trivial: every exit-0 case (all have >= 1 hole); distinct by case hash.".into()
    }
    fn assumptions(&self) -> Vec<String> {
        vec!["sandbox filesystem supports SEEK_HOLE and FIEMAP (probed at start; exit 2 otherwise)".into()]
    }
    fn needs(&self) -> Needs {
        Needs { xcp: true, probe: true, fallback: false }
    }
    fn run_shard(&self, ctx: &Ctx, rec: &mut Rec) {
        if let Err(e) = capability_probe() {
            rec.inconclusive.push(format!("capability probe failed: {e}"));
            rec.count("inconclusive_cases", 1_000_000);
            return;
        }
        let total = match ctx.tier {
            Tier::Quick => 3000,
            Tier::Thorough => 80000,
        };
        prop_loop(ctx, rec, "gen", strategy(), ctx.share(total), judge);
        prop_loop(ctx, rec, "libfs", strategy(), ctx.share(total / 3), judge_libfs);
    }
    fn replay(&self, _ctx: &Ctx, sub: &str, case: &Value) -> Verdict {
        match serde_json::from_value::<Case>(case.clone()) {
            Ok(c) if sub == "libfs" => judge_libfs(&c, &mut Rec::default()),
            Ok(c) => judge(&c, &mut Rec::default()),
            Err(e) => Verdict::Inconclusive(format!("bad case: {e}")),
        }
    }
    fn min_nontrivial(&self, tier: Tier) -> usize {
        match tier {
            Tier::Quick => 1000,
            Tier::Thorough => 10000,
        }
    }
    fn required_classes(&self, _tier: Tier) -> Vec<String> {
        ["segs=0", "segs=1|", "segs=2-32", "segs=>32", "|lead|", "|trail|", "|inner|", "block<segment", "block>hole", "prior-allocated", "unaligned", "parblock|", "parfile|", "libfs|copy_file", "libfs|sparse", "on-tmpfs|parblock|segs=2|exit=0", "on-tmpfs|parfile|segs=2|exit=0", "copy_file_range-unavailable|errno18|parblock|exit=0", "copy_file_range-unavailable|errno18|parfile|exit=0"].iter().map(|s| s.to_string()).collect()
    }
}
