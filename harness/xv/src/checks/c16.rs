//! C16 — invalid invocations are rejected with no side effects.

use super::tree::bystanders;
use super::{Check, Needs};
use crate::engine::*;
use crate::model;
use crate::run::*;
use crate::sandbox::*;
use crate::spec::*;
use crate::util::*;
use proptest::prelude::*;
use serde::{Deserialize, Serialize};
use serde_json::{json, Value};

pub struct C16;

#[derive(Clone, Copy, Debug, Serialize, Deserialize, PartialEq)]
pub enum Class {
    NoArgs,
    SinglePath,
    MissingSource,
    DirWithoutRecursive,
    MultiToNonDir,
    DirOntoFile,
    SameAsDest,
    SameAsDestBasename,
    ForceNoClobber,
    BadDriver,
    BadReflink,
    BadBackup,
    BadBlockSize,
    BadWorkers,
    UnknownFlag,
    BadGlob,
    /// destination designates the source itself: through a symlink, a hard link, or another spelling
    SameViaSymlink,
    SameViaHardlink,
    SameViaSpelling,
    /// several sources selected by ONE --glob pattern, destination not a directory
    MultiViaGlobToNonDir,
    /// two sources with the same basename map onto one destination path (cp: "will not overwrite just-created")
    DuplicateTargets,
    /// -r d ./d, -r ./d d, -r d <symlink to d>, -r d by/../d: a directory onto itself under another spelling
    SameDirViaSpelling,
    /// several sources, the destination is the own directory of one of them (xcp sub/f ... v0 .)
    OwnDirAmongValid,
    /// several sources with -r, one of them a directory whose mapped path dest/<name> is an existing regular file
    DirOntoFileMapped,
    /// --block-size 0 (also 0KB ...): a value that cannot be honoured
    BlockSizeZero,
    /// --glob given and one "pattern" is a literal name that does not exist, among valid ones
    MissingSourceViaGlob,
    /// a source given as dir/. (merged into the destination itself) brings an entry that another source maps to
    /// the same path: xcp -r vd/. sub/inner d  (both give d/inner)
    OverlapViaContentsForm,
}
const CLASSES: &[Class] = &[
    Class::NoArgs, Class::SinglePath, Class::MissingSource, Class::DirWithoutRecursive, Class::MultiToNonDir, Class::DirOntoFile, Class::SameAsDest, Class::SameAsDestBasename,
    Class::ForceNoClobber, Class::BadDriver, Class::BadReflink, Class::BadBackup, Class::BadBlockSize, Class::BadWorkers, Class::UnknownFlag, Class::BadGlob,
    Class::SameViaSymlink, Class::SameViaHardlink, Class::SameViaSpelling, Class::MultiViaGlobToNonDir, Class::DuplicateTargets,
    Class::SameDirViaSpelling, Class::OwnDirAmongValid, Class::DirOntoFileMapped, Class::BlockSizeZero, Class::MissingSourceViaGlob, Class::OverlapViaContentsForm,
];

#[derive(Clone, Debug, Serialize, Deserialize)]
pub struct Case {
    pub class: Class,
    /// position of the offending argument among the valid sources
    pub pos: u8,
    /// number of valid sources around it (0..=3)
    pub nvalid: u8,
    /// 0 absent, 1 file, 2 empty dir, 3 populated dir
    pub dest_state: u8,
    pub parblock: bool,
    pub harmless: u8,
    pub variant: u8,
}

pub fn strategy() -> BoxedStrategy<Case> {
    (0..CLASSES.len(), 0u8..4, 0u8..4, 0u8..4, any::<bool>(), 0u8..64, 0u8..8)
        .prop_map(|(c, pos, nvalid, dest_state, parblock, harmless, variant)| Case { class: CLASSES[c], pos, nvalid, dest_state, parblock, harmless, variant })
        .boxed()
}

pub fn build(c: &Case) -> (Vec<Ent>, Vec<Vec<u8>>, u8) {
    let mut ents = bystanders();
    for i in 0..3 {
        ents.push(Ent::file(format!("v{}", i).as_bytes(), Content::data(100 + i as u64, i as u8)).with_mtime(1_500_000_000 + i as i64, 11));
    }
    ents.push(Ent::dir(b"vd").with_mtime(1_500_000_100, 0));
    ents.push(Ent::file(b"vd/inner", Content::data(50, 4)).with_mtime(1_500_000_101, 0));
    ents.push(Ent::dir(b"sub"));
    ents.push(Ent::file(b"sub/f", Content::data(20, 5)));
    // destination state, adjusted to what the class needs
    let mut ds = c.dest_state % 4;
    match c.class {
        Class::MultiToNonDir | Class::MultiViaGlobToNonDir => ds %= 2, // absent or file
        Class::DirOntoFile => ds = 1,             // existing file
        Class::DirWithoutRecursive | Class::DuplicateTargets => ds = 2 + ds % 2, // a directory, so that only the missing -r is wrong
        Class::MissingSource if c.nvalid >= 1 => ds = 2 + ds % 2,
        Class::MissingSourceViaGlob => ds = 2 + ds % 2,
        Class::OverlapViaContentsForm => ds = 2,
        Class::DirOntoFileMapped => ds = 2,
        _ => {}
    }
    match ds {
        1 => ents.push(Ent::file(b"d", Content::data(33, 6)).with_mode(0o600).with_mtime(1_400_000_000, 3)),
        2 => ents.push(Ent::dir(b"d").with_mtime(1_400_000_001, 4)),
        3 => {
            ents.push(Ent::dir(b"d"));
            ents.push(Ent::file(b"d/v0", Content::data(7, 7)).with_mtime(1_400_000_002, 5));
            ents.push(Ent::file(b"d/old", Content::data(8, 7)));
            ents.push(Ent::dir(b"d/vd"));
        }
        _ => {}
    }
    let s = |x: &str| x.as_bytes().to_vec();
    let mut flags: Vec<Vec<u8>> = vec![s("--driver"), s(if c.parblock { "parblock" } else { "parfile" })];
    if c.harmless & 1 != 0 {
        flags.push(s("--no-progress"));
    }
    if c.harmless & 2 != 0 {
        flags.push(s("--fsync"));
    }
    if c.harmless & 4 != 0 {
        flags.push(s("--no-perms"));
    }
    if c.harmless & 8 != 0 {
        flags.extend([s("-w"), s("2")]);
    }
    if c.harmless & 16 != 0 {
        flags.push(s("-v"));
    }
    if c.harmless & 32 != 0 {
        flags.push(s("--backup=numbered"));
    }
    let nvalid = (c.nvalid % 4) as usize;
    let mut valid: Vec<Vec<u8>> = (0..std::cmp::min(nvalid, 3)).map(|i| format!("v{}", i).into_bytes()).collect();
    let pos = std::cmp::min(c.pos as usize, valid.len());
    let dest_is_dir = ds >= 2;
    let mut recursive = c.variant & 1 != 0;
    let mut paths: Vec<Vec<u8>>;
    match c.class {
        Class::NoArgs => paths = vec![],
        Class::SinglePath => paths = vec![s("v0")],
        Class::MissingSource => {
            if c.variant & 4 != 0 {
                // with -L a dangling symbolic link is a source that does not exist
                ents.push(Ent::link(b"dang", b"nowhere"));
                flags.push(s("-L"));
            }
            valid.insert(pos, s(if c.variant & 4 != 0 { "dang" } else if c.variant & 2 != 0 { "no/such/file" } else { "nonexistent" }));
            paths = valid;
            paths.push(s("d"));
            if !dest_is_dir && paths.len() > 2 {
                // several sources need a directory: keep this class about the missing source only
                paths = vec![paths[pos].clone(), s("d")];
            }
        }
        Class::DirWithoutRecursive => {
            valid.insert(pos, s("vd"));
            paths = valid;
            paths.push(s("d"));
            recursive = false;
        }
        Class::MultiToNonDir => {
            if valid.len() < 2 {
                valid = vec![s("v0"), s("v1")];
            }
            paths = valid;
            paths.push(s("d"));
        }
        Class::DirOntoFile => {
            paths = vec![s("vd"), s("d")];
            recursive = true;
        }
        Class::SameAsDest => {
            if c.variant & 2 != 0 {
                paths = vec![s("vd"), s("vd")];
                recursive = true;
            } else {
                paths = vec![s("v0"), s("v0")];
            }
        }
        Class::SameAsDestBasename => {
            if c.variant & 2 != 0 {
                paths = vec![s("sub/f"), s("sub")];
            } else {
                paths = vec![s("sub"), s(".")];
                recursive = true;
                // "." joined with "sub" is "./sub": only textually identical when the source is spelled so
                paths[0] = s("./sub");
            }
        }
        Class::ForceNoClobber => {
            flags.extend([s("-f"), s("-n")]);
            valid.truncate(if dest_is_dir { 3 } else { 1 });
            if valid.is_empty() {
                valid.push(s("v0"));
            }
            paths = valid;
            paths.push(s("d"));
        }
        Class::BadDriver | Class::BadReflink | Class::BadBackup | Class::BadBlockSize | Class::BadWorkers | Class::UnknownFlag => {
            let bad: Vec<Vec<u8>> = match c.class {
                Class::BadDriver => vec![s("--driver"), s(["foo", "", "par file", "PARFILEX"][c.variant as usize % 4])],
                Class::BadReflink => vec![s(&format!("--reflink={}", ["sometimes", "yes", "", "0"][c.variant as usize % 4]))],
                Class::BadBackup => vec![s(&format!("--backup={}", ["yes", "simple", "t", "existing"][c.variant as usize % 4]))],
                Class::BadBlockSize => vec![s("--block-size"), s(["abc", "12Q", "-5", "1.5.2MB"][c.variant as usize % 4])],
                Class::BadWorkers => vec![s("--workers"), s(["-1", "x", "1.5", ""][c.variant as usize % 4])],
                _ => vec![s(["--frobnicate", "--no-such-flag", "-Z", "--driverr=parfile"][c.variant as usize % 4])],
            };
            flags.extend(bad);
            valid.truncate(if dest_is_dir { 3 } else { 1 });
            if valid.is_empty() {
                valid.push(s("v0"));
            }
            paths = valid;
            paths.push(s("d"));
        }
        Class::SameViaSymlink => {
            ents.push(Ent::link(b"alias", if c.variant & 2 != 0 { b"./v0" } else { b"v0" }));
            paths = vec![s("v0"), s("alias")];
        }
        Class::SameViaHardlink => {
            ents.push(Ent::new(b"hard", Kind::Hard(b"v0".to_vec())));
            paths = vec![s("v0"), s("hard")];
        }
        Class::SameViaSpelling => {
            paths = match c.variant % 4 {
                0 => vec![s("v0"), s("./v0")],
                1 => vec![s("v0"), s("by/../v0")],
                2 => vec![s("sub/f"), s("./sub")],
                _ => vec![s("v0"), s(".")],
            };
        }
        Class::MultiViaGlobToNonDir => {
            flags.push(s("--glob"));
            paths = vec![s(["v*", "v?", "v[012]", "*0"][c.variant as usize % 4]), s("d")];
            if c.variant % 4 == 3 {
                // "*0" matches v0 only unless another name ends in 0: add one
                ents.push(Ent::file(b"w0", Content::data(3, 9)));
            }
        }
        Class::DuplicateTargets => {
            // sub/v0 and v0 (files), or sub/vd and vd (directories), plus other valid sources around
            if c.variant & 1 != 0 {
                ents.push(Ent::dir(b"sub/vd"));
                ents.push(Ent::file(b"sub/vd/other", Content::data(9, 8)));
                valid.insert(pos, s("sub/vd"));
                valid.push(s("vd"));
                recursive = true;
            } else {
                ents.push(Ent::file(b"sub/v0", Content::data(300000, 8)));
                if !valid.contains(&s("v0")) {
                    valid.push(s("v0"));
                }
                valid.insert(pos, s("sub/v0"));
            }
            paths = valid;
            paths.push(s("d"));
        }
        Class::SameDirViaSpelling => {
            recursive = true;
            paths = match c.variant % 4 {
                0 => vec![s("vd"), s("./vd")],
                1 => vec![s("./vd"), s("vd")],
                2 => {
                    ents.push(Ent::link(b"vdl", b"vd"));
                    vec![s("vd"), s("vdl")]
                }
                _ => vec![s("vd"), s("by/../vd")],
            };
        }
        Class::OwnDirAmongValid => {
            // valid sources live in sub-directories and would land in ".", v0 already lives there
            let mut v: Vec<Vec<u8>> = [s("vd/inner"), s("by/keep"), s("sub/f")][..std::cmp::max(1, std::cmp::min(nvalid, 3))].to_vec();
            let p = std::cmp::min(c.pos as usize, v.len());
            v.insert(p, s("v0"));
            paths = v;
            paths.push(s(if c.variant & 2 != 0 { "./" } else { "." }));
        }
        Class::DirOntoFileMapped => {
            ents.push(Ent::file(b"d/vd", Content::data(12, 9)).with_mtime(1_400_000_003, 6));
            if valid.is_empty() {
                valid.push(s("v1"));
            }
            let p = std::cmp::min(pos, valid.len());
            valid.insert(p, s("vd"));
            paths = valid;
            paths.push(s("d"));
            recursive = true;
        }
        Class::BlockSizeZero => {
            flags.extend([s("--block-size"), s(["0", "0KB", "00", "0MB"][c.variant as usize % 4])]);
            valid.truncate(if dest_is_dir { 3 } else { 1 });
            if valid.is_empty() {
                valid.push(s("v0"));
            }
            paths = valid;
            paths.push(s("d"));
        }
        Class::MissingSourceViaGlob => {
            flags.push(s("--glob"));
            if valid.is_empty() {
                valid.push(s("v0"));
            }
            let p = std::cmp::min(pos, valid.len());
            valid.insert(p, s(if c.variant & 2 != 0 { "no/such/file" } else { "nonexistent" }));
            paths = valid;
            paths.push(s("d"));
        }
        Class::OverlapViaContentsForm => {
            recursive = true;
            match c.variant % 3 {
                0 => {
                    // a file of the same name as an entry of the merged directory
                    ents.push(Ent::file(b"sub/inner", Content::data(70000, 8)));
                    paths = vec![s("vd/."), s("sub/inner")];
                }
                1 => {
                    // two merged directories with a common entry
                    ents.push(Ent::dir(b"ve"));
                    ents.push(Ent::file(b"ve/inner", Content::data(9, 8)));
                    ents.push(Ent::file(b"ve/other", Content::data(9, 9)));
                    paths = vec![s("vd/."), s("ve/.")];
                }
                _ => {
                    ents.push(Ent::file(b"sub/inner", Content::data(5, 8)));
                    paths = vec![s("sub/inner"), s("vd/sub2/..")];
                    ents.push(Ent::dir(b"vd/sub2"));
                }
            }
            if c.pos % 2 == 1 {
                paths.reverse();
            }
            if nvalid > 0 {
                paths.insert(0, s("v1"));
            }
            paths.push(s("d"));
        }
        Class::BadGlob => {
            flags.push(s("--glob"));
            valid.insert(pos, s(["v[", "***", "v[0", "a/***/b"][c.variant as usize % 4]));
            if !dest_is_dir {
                valid = vec![valid[pos].clone()];
            }
            paths = valid;
            paths.push(s("d"));
        }
    }
    if recursive {
        flags.push(s("-r"));
    }
    flags.extend(paths);
    (ents, flags, ds)
}

pub fn judge(c: &Case, rec: &mut Rec) -> Verdict {
    let sb = match Sandbox::new() {
        Ok(s) => s,
        Err(e) => return Verdict::Inconclusive(format!("sandbox: {e}")),
    };
    let (ents, argv, ds) = build(c);
    if let Err(e) = materialise(&sb.root, &ents) {
        return Verdict::Inconclusive(format!("materialise: {e}"));
    }
    let pre = match snapshot(&sb.root) {
        Ok(s) => s,
        Err(e) => return Verdict::Inconclusive(format!("snapshot: {e}")),
    };
    let out = run_plain(&RunSpec::xcp(argv.clone(), &sb.root, &sb.out));
    rec.eval(1);
    if out.timed_out {
        return Verdict::Inconclusive("watchdog".into());
    }
    let post = match snapshot(&sb.root) {
        Ok(s) => s,
        Err(e) if e.raw_os_error() == Some(libc::ENAMETOOLONG) => {
            // the sandbox could be walked before the run and cannot any more: something grew beyond PATH_MAX
            return Verdict::faild(
                format!("C16|{:?}|side-effects", c.class),
                format!("rejected or failed invocation ({:?}) left a tree deeper than PATH_MAX behind (exit {:?})", c.class, out.code),
                json!({"argv": argv.iter().map(|a| esc(a)).collect::<Vec<_>>(), "exit": out.code, "stderr": out.stderr_s()}),
            );
        }
        Err(e) => return Verdict::Inconclusive(format!("snapshot: {e}")),
    };
    let dsn = ["absent", "file", "emptydir", "populated"][ds as usize % 4];
    if c.class == Class::MissingSource && c.variant & 4 != 0 {
        rec.class(format!("MissingSource|dangling-link-with-L|pos={}", std::cmp::min(c.pos, c.nvalid % 4)));
    }
    let key = format!("{:?}|pos={}|dest={}|{}", c.class, std::cmp::min(c.pos, c.nvalid % 4), dsn, if c.parblock { "parblock" } else { "parfile" });
    let new = rec.class(key);
    rec.nontrivial(case_hash(c));
    let argv_s: Vec<String> = argv.iter().map(|a| esc(a)).collect();
    if new {
        rec.sample(json!({"class": format!("{:?}", c.class), "argv": argv_s, "dest": dsn, "exit": out.code}));
    }
    if out.ok() {
        return Verdict::faild(
            format!("C16|{:?}|accepted", c.class),
            format!("invalid invocation ({:?}) exited 0: {:?}", c.class, argv_s),
            json!({"argv": argv_s, "dest": dsn, "changes": model::snap_diff(&pre, &post).iter().take(8).collect::<Vec<_>>()}),
        );
    }
    let diffs = model::snap_diff(&pre, &post);
    if !diffs.is_empty() {
        return Verdict::faild(
            format!("C16|{:?}|side-effects", c.class),
            format!("rejected invocation ({:?}) changed the filesystem: {}", c.class, diffs.iter().take(3).cloned().collect::<Vec<_>>().join("; ")),
            json!({"argv": argv_s, "dest": dsn, "exit": out.code, "stderr": out.stderr_s(), "diffs": diffs.iter().take(10).collect::<Vec<_>>()}),
        );
    }
    Verdict::Pass
}

impl Check for C16 {
    fn id(&self) -> &'static str {
        "C16"
    }
    fn rule(&self) -> String {
        "proptest-generated invalid invocations: 20 rejection classes (destination designating the source through a symlink / hard link / another spelling, several sources selected by ONE --glob pattern with a non-directory destination, no args, single path, missing source, directory without -r, several sources to an absent/file destination, directory onto a file, source textually identical to the destination or to dest/basename, --force with --no-clobber, bad --driver/--reflink/--backup/--block-size/--workers values, unknown flag, malformed --glob pattern) x position of the offending argument among 0-3 valid sources x destination state (absent, file, empty directory, populated directory) x driver x harmless extra flags x 4 variants of the bad value. Oracle: exit != 0 and the byte-and-metadata snapshot of the whole sandbox (directory mtimes included, atime excluded) is unchanged. Every case is non-trivial; distinct by case hash.".into()
    }
    fn needs(&self) -> Needs {
        Needs { xcp: true, probe: false, fallback: false }
    }
    fn run_shard(&self, ctx: &Ctx, rec: &mut Rec) {
        let total = match ctx.tier {
            Tier::Quick => 9000,
            Tier::Thorough => 150000,
        };
        prop_loop(ctx, rec, "gen", strategy(), ctx.share(total), judge);
    }
    fn replay(&self, _ctx: &Ctx, _sub: &str, case: &Value) -> Verdict {
        match serde_json::from_value::<Case>(case.clone()) {
            Ok(c) => judge(&c, &mut Rec::default()),
            Err(e) => Verdict::Inconclusive(format!("bad case: {e}")),
        }
    }
    fn min_nontrivial(&self, tier: Tier) -> usize {
        match tier {
            Tier::Quick => 1000,
            Tier::Thorough => 5000,
        }
    }
    fn required_classes(&self, _tier: Tier) -> Vec<String> {
        CLASSES.iter().map(|c| format!("{:?}|", c)).collect()
    }
}
