//! C02 — exit 0 implies the destination tree mirrors the selected source tree (cp's mapping rule),
//! nothing else is touched and nothing is created elsewhere.

use super::tree::*;
use super::{Check, Needs};
use crate::engine::*;
use crate::model::{self, Inv, Plan};
use crate::run::*;
use crate::sandbox::*;
use crate::spec::*;
use crate::util::*;
use proptest::prelude::*;
use serde::{Deserialize, Serialize};
use serde_json::{json, Value};

pub struct C02;

#[derive(Clone, Debug, Serialize, Deserialize)]
pub enum SrcKind {
    Tree(Vec<GEnt>),
    File(u32, u8),
    /// the source argument is itself a symlink to a file / to a directory (cp -R copies the link)
    LinkToFile,
    LinkToDir,
}

#[derive(Clone, Debug, Serialize, Deserialize)]
pub struct SrcSpec {
    pub name: u8,
    pub kind: SrcKind,
    pub spell: Spell,
}

#[derive(Clone, Copy, Debug, Serialize, Deserialize, PartialEq)]
pub enum MutKind {
    /// same kind, different content / link text
    Differ,
    /// identical copy already there
    Same,
    /// a regular file where the source has a link or a directory
    FileInstead,
    /// a directory where the source has a file or link
    DirInstead,
}

#[derive(Clone, Debug, Serialize, Deserialize)]
pub enum DestSpec {
    Absent,
    File(u32),
    EmptyDir,
    /// destination directory pre-populated as if by an earlier copy of a variant of the sources
    Populated(Vec<(u16, MutKind)>, u8),
    /// destination populated by a real earlier run of the same invocation, then the sources are edited
    RealRun(Vec<(u16, u8)>),
}

#[derive(Clone, Copy, Debug, Serialize, Deserialize, PartialEq)]
pub enum GlobMode {
    Off,
    /// --glob with patterns derived from the names (sources live under in/)
    Patterns(u8),
    /// --glob with the single pattern in/*
    Star,
}

#[derive(Clone, Debug, Serialize, Deserialize)]
pub struct Case {
    pub srcs: Vec<SrcSpec>,
    pub dest: DestSpec,
    pub dest_spell: Spell,
    pub flags: (bool, u8, Option<u64>),
    pub no_target_dir: bool,
    pub target_dir_opt: bool,
    pub glob: GlobMode,
    /// replace every symlink in the sources by a small regular file (re-copies over existing links
    /// are refused by xcp, which would leave the populated-destination classes mostly unjudged)
    #[serde(default)]
    pub nolinks: bool,
    /// options that must not change the mapping: bit0 --fsync, 1 --no-perms, 2 --no-timestamps,
    /// 3 --backup=numbered, 4 --backup=auto, 5 --ownership
    #[serde(default)]
    pub extra: u8,
    /// the destination argument is a symlink to the destination directory (only when that is a directory)
    #[serde(default)]
    pub dest_via_link: bool,
    /// the second source has the SAME basename as the first (it lives in the directory dup/): both map onto
    /// one destination path. Only C06 (and C16) generate this; cp refuses such invocations.
    #[serde(default)]
    pub dup_basename: bool,
}

fn src_spec() -> BoxedStrategy<SrcSpec> {
    let kind = prop_oneof![
        8 => prop::collection::vec(gent(NAMES.len(), true), 0..14).prop_map(SrcKind::Tree),
        3 => (small_len(), 0u8..8).prop_map(|(l, s)| SrcKind::File(l, s)),
        1 => Just(SrcKind::LinkToFile),
        1 => Just(SrcKind::LinkToDir),
    ];
    (0..TOP_SAFE as u8, kind, any_spell()).prop_map(|(name, kind, spell)| SrcSpec { name, kind, spell }).boxed()
}

pub fn strategy() -> BoxedStrategy<Case> {
    let mk = prop_oneof![3 => Just(MutKind::Differ), 1 => Just(MutKind::Same), 1 => Just(MutKind::FileInstead), 1 => Just(MutKind::DirInstead)];
    let dest = prop_oneof![
        2 => Just(DestSpec::Absent),
        1 => (0u32..300).prop_map(DestSpec::File),
        2 => Just(DestSpec::EmptyDir),
        4 => (prop::collection::vec((any::<u16>(), mk), 0..8), 0u8..4).prop_map(|(m, x)| DestSpec::Populated(m, x)),
        3 => prop::collection::vec((any::<u16>(), 0u8..4), 0..6).prop_map(DestSpec::RealRun),
    ];
    (
        prop::collection::vec(src_spec(), 1..4),
        dest,
        any_spell(),
        common_flags(),
        prop::bool::weighted(0.2),
        prop::bool::weighted(0.15),
        prop_oneof![5 => Just(GlobMode::Off), 2 => (0u8..255).prop_map(GlobMode::Patterns), 1 => Just(GlobMode::Star)],
        prop::bool::weighted(0.4),
        prop_oneof![3 => Just(0u8), 2 => 0u8..128],
        prop::bool::weighted(0.12),
    )
        .prop_map(|(srcs, dest, dest_spell, flags, no_target_dir, target_dir_opt, glob, nolinks, extra, dest_via_link)| Case { srcs, dest, dest_spell, flags, no_target_dir, target_dir_opt, glob, nolinks, extra, dest_via_link, dup_basename: false })
        .boxed()
}

pub struct Built {
    pub ents: Vec<Ent>,
    pub inv: Inv,
    /// edits applied to the sources after the first (real) run
    pub edits: Vec<Ent>,
    pub real_run: bool,
    pub dest_state: &'static str,
    pub has_links: bool,
    pub max_depth: usize,
}

/// Turn the generated choices into a concrete sandbox pre-state and invocation (pure, total).
pub fn build(c: &Case, root_abs: &[u8]) -> Built {
    let mut ents = bystanders();
    let globbing = c.glob != GlobMode::Off;
    let base: &[u8] = if globbing { b"in" } else { b"" };
    if globbing {
        ents.push(Ent::dir(b"in"));
    }
    let nsrc = c.srcs.len();
    // unique top-level names
    let mut names: Vec<Vec<u8>> = vec![];
    for (i, s) in c.srcs.iter().enumerate() {
        let mut n = NAMES[s.name as usize % TOP_SAFE].to_vec();
        if c.dup_basename && i == 1 {
            n = names[0].clone();
        } else if names.contains(&n) {
            n.extend_from_slice(format!("{}", i).as_bytes());
        }
        names.push(n);
    }
    let mut src_ents: Vec<Vec<Ent>> = vec![];
    let mut src_is_dir: Vec<bool> = vec![];
    let mut eff_kinds: Vec<SrcKind> = vec![];
    let mut src_tops: Vec<Vec<u8>> = vec![];
    for (s, n) in c.srcs.iter().zip(names.iter()) {
        let mut kind = s.kind.clone();
        if c.nolinks {
            kind = match kind {
                SrcKind::Tree(g) => SrcKind::Tree(
                    g.into_iter()
                        .map(|mut x| {
                            if !matches!(x.kind, GK::Dir | GK::File(..) | GK::Fifo | GK::Sock | GK::Sparse(..)) {
                                x.kind = GK::File(33, 2);
                            }
                            x
                        })
                        .collect(),
                ),
                SrcKind::LinkToFile | SrcKind::LinkToDir => SrcKind::File(44, 3),
                k => k,
            };
        }
        // a source that is itself a symlink lives in the directory w/ and points to ../by/...: the same
        // relative text also resolves from inside the destination directory (to a bystander)
        let in_w = !globbing && matches!(kind, SrcKind::LinkToFile | SrcKind::LinkToDir);
        let top = if c.dup_basename && src_tops.len() == 1 && !globbing { join(b"dup", n) } else if in_w { join(b"w", n) } else { join(base, n) };
        if in_w && !ents.iter().any(|e| e.path == b"w") {
            ents.push(Ent::dir(b"w"));
        }
        src_tops.push(top.clone());
        let e: Vec<Ent> = match &kind {
            SrcKind::Tree(g) => build_tree(&top, g, root_abs, 4),
            SrcKind::File(l, seed) => vec![Ent::file(&top, Content::data(*l as u64, *seed)).with_mode(0o644).with_mtime(1_400_000_000, 42)],
            SrcKind::LinkToFile => vec![Ent::link(&top, b"../by/keep")],
            SrcKind::LinkToDir => vec![Ent::link(&top, b"../by/sub")],
        };
        src_is_dir.push(matches!(kind, SrcKind::Tree(_)));
        eff_kinds.push(kind);
        src_ents.push(e);
    }
    let single = nsrc == 1;
    let single_dirlike = single && matches!(eff_kinds[0], SrcKind::Tree(_) | SrcKind::LinkToDir);
    // destination state, restricted to what the invocation shape allows (construction, not rejection)
    let mut no_target_dir = c.no_target_dir && single;
    let target_dir_opt = c.target_dir_opt && !no_target_dir;
    let dest_spec: DestSpec = match &c.dest {
        DestSpec::Absent if single && !target_dir_opt && !globbing => DestSpec::Absent,
        DestSpec::Absent => DestSpec::EmptyDir,
        DestSpec::File(l) if single && !single_dirlike && !target_dir_opt && !globbing => DestSpec::File(*l),
        DestSpec::File(_) => DestSpec::EmptyDir,
        other => other.clone(),
    };
    // -T onto an existing directory with a non-directory source is "file onto directory": not in this domain
    if no_target_dir && !single_dirlike && !matches!(dest_spec, DestSpec::Absent | DestSpec::File(_)) {
        no_target_dir = false;
    }
    // with Star glob the set of sources is whatever is in in/: several => needs a directory
    let dname: &[u8] = b"d";
    let mut dest_ents: Vec<Ent> = vec![];
    let mut dest_state = "absent";
    let mut real_run = false;
    let mut edits: Vec<Ent> = vec![];
    // flat list of all source entries with their mapped destination
    let mut flat: Vec<(Ent, Vec<u8>)> = vec![];
    for (i, se) in src_ents.iter().enumerate() {
        let top = &se[0].path;
        let troot = if no_target_dir { dname.to_vec() } else { join(dname, &names[i]) };
        for e in se {
            let rel = &e.path[top.len()..];
            let rel = if rel.first() == Some(&b'/') { &rel[1..] } else { rel };
            flat.push((e.clone(), join(&troot, rel)));
        }
    }
    match &dest_spec {
        DestSpec::Absent => {}
        DestSpec::File(l) => {
            dest_state = "file";
            dest_ents.push(Ent::file(dname, Content::data(*l as u64, 13)).with_mode(0o600).with_mtime(1_300_000_000, 1));
        }
        DestSpec::EmptyDir => {
            dest_state = "emptydir";
            dest_ents.push(Ent::dir(dname));
        }
        DestSpec::Populated(muts, extra) => {
            dest_state = "populated";
            dest_ents.push(Ent::dir(dname));
            let mut made: Vec<(Vec<u8>, bool)> = vec![(dname.to_vec(), true)]; // (path, is_dir)
            let ok_parent = |made: &Vec<(Vec<u8>, bool)>, p: &[u8]| -> bool {
                // every existing ancestor must be a directory; path itself must be new
                if made.iter().any(|(q, _)| q == p) {
                    return false;
                }
                let mut a = parent(p).to_vec();
                while !a.is_empty() {
                    if let Some((_, isd)) = made.iter().find(|(q, _)| *q == a) {
                        if !*isd {
                            return false;
                        }
                    }
                    a = parent(&a).to_vec();
                }
                true
            };
            for (idx, mk) in muts {
                if flat.is_empty() {
                    break;
                }
                let (se, dst) = &flat[monotonic_index(*idx, flat.len())];
                if !ok_parent(&made, dst) {
                    continue;
                }
                let pre: Option<Ent> = match (mk, &se.kind) {
                    (MutKind::Differ, Kind::File(c0)) => Some(Ent::file(dst, Content::data(c0.len() / 2 + 3, 14)).with_mode(0o604).with_mtime(1_350_000_000, 9)),
                    (MutKind::Differ, Kind::Link(_)) => Some(Ent::link(dst, b"stale/target")),
                    (MutKind::Differ, Kind::Dir) => Some(Ent::dir(dst)),
                    (MutKind::Same, Kind::File(c0)) => Some(Ent::file(dst, c0.clone())),
                    (MutKind::Same, Kind::Link(t)) => Some(Ent::link(dst, t)),
                    (MutKind::Same, Kind::Dir) => Some(Ent::dir(dst)),
                    (MutKind::FileInstead, Kind::Link(_)) | (MutKind::FileInstead, Kind::Dir) => Some(Ent::file(dst, Content::data(9, 15))),
                    (MutKind::DirInstead, Kind::File(_)) | (MutKind::DirInstead, Kind::Link(_)) => Some(Ent::dir(dst)),
                    _ => None,
                };
                if let Some(p) = pre {
                    let isd = matches!(p.kind, Kind::Dir);
                    // register implicit parents as directories
                    let mut a = parent(dst).to_vec();
                    while !a.is_empty() && !made.iter().any(|(q, _)| *q == a) {
                        made.push((a.clone(), true));
                        a = parent(&a).to_vec();
                    }
                    made.push((dst.clone(), isd));
                    dest_ents.push(p);
                }
            }
            for x in 0..*extra {
                let p = join(dname, format!("extra_{}", x).as_bytes());
                if x % 2 == 0 {
                    dest_ents.push(Ent::file(&p, Content::data(10 + x as u64, 16)).with_mtime(1_360_000_000, 3));
                } else {
                    dest_ents.push(Ent::link(&p, b"../by/keep"));
                }
            }
        }
        DestSpec::RealRun(ed) => {
            dest_state = "realrun";
            real_run = true;
            dest_ents.push(Ent::dir(dname));
            for (idx, how) in ed {
                if flat.is_empty() {
                    break;
                }
                let (se, _) = &flat[monotonic_index(*idx, flat.len())];
                match (&se.kind, how % 4) {
                    (Kind::File(c0), 0) => edits.push(Ent::file(&se.path, Content::data(c0.len() + 11, 20)).with_mtime(1_600_000_000, 77)),
                    (Kind::File(c0), 1) => edits.push(Ent::file(&se.path, Content::data(c0.len() / 2, 21))),
                    (Kind::File(_), _) => edits.push(Ent::file(&se.path, Content::data(1, 22))),
                    (Kind::Link(_), _) => edits.push(Ent::link(&se.path, b"changed/target")),
                    (Kind::Dir, _) => {
                        edits.push(Ent::file(&join(&se.path, format!("added_{}", how).as_bytes()), Content::data(17, 23)));
                    }
                    _ => {}
                }
            }
        }
    }
    {
        // one edit per path (the last one wins)
        let mut seen: Vec<Vec<u8>> = vec![];
        let mut ded: Vec<Ent> = vec![];
        for e in edits.iter().rev() {
            if !seen.contains(&e.path) {
                seen.push(e.path.clone());
                ded.push(e.clone());
            }
        }
        ded.reverse();
        edits = ded;
    }
    let has_links = flat.iter().any(|(e, _)| matches!(e.kind, Kind::Link(_)));
    let max_depth = flat.iter().map(|(e, _)| e.path.iter().filter(|c| **c == b'/').count()).max().unwrap_or(0);
    // contents-form spellings (<dir>/. and <dir>/.xvd/..) only for a single real directory given literally
    let eff_spell: Vec<Spell> = c
        .srcs
        .iter()
        .enumerate()
        .map(|(i, s)| if matches!(s.spell, Spell::SlashDot | Spell::ChildDotDot) && (!src_is_dir.get(i).copied().unwrap_or(false) || !matches!(c.glob, GlobMode::Off)) { Spell::Plain } else { s.spell })
        .collect();
    for (i, sp) in eff_spell.iter().enumerate() {
        if *sp == Spell::ChildDotDot && i < src_ents.len() {
            let p = join(&src_tops[i], b".xvd");
            src_ents[i].push(Ent::dir(&p));
        }
    }
    for se in &src_ents {
        ents.extend(se.iter().cloned());
    }
    ents.extend(dest_ents);
    // invocation
    let mut inv = Inv::default();
    apply_common(&mut inv, c.flags);
    inv.fsync = c.extra & 1 != 0;
    inv.no_perms = c.extra & 2 != 0;
    inv.no_timestamps = c.extra & 4 != 0;
    inv.backup = if c.extra & 8 != 0 { "numbered".into() } else if c.extra & 16 != 0 { "auto".into() } else { String::new() };
    inv.ownership = c.extra & 32 != 0;
    // no ignore file exists anywhere in these trees: the option must change nothing, whatever kind the sources are
    inv.gitignore = c.extra & 64 != 0;
    inv.recursive = src_is_dir.iter().any(|d| *d) || eff_kinds.iter().any(|k| matches!(k, SrcKind::LinkToDir)) || c.flags.1 % 2 == 0;
    inv.no_target_dir = no_target_dir;
    inv.target_dir_opt = target_dir_opt;
    let dest_is_dir = !matches!(dest_spec, DestSpec::Absent | DestSpec::File(_));
    let dspell = if c.dest_spell == Spell::ChildDotDot { Spell::Plain } else { c.dest_spell };
    if c.dest_via_link && dest_is_dir {
        // the mapping rule follows a symlinked destination directory
        ents.push(Ent::link(b"dlink", b"d"));
        inv.dest = spell(b"dlink", dspell, root_abs, true);
    } else {
        inv.dest = spell(dname, dspell, root_abs, dest_is_dir);
    }
    match c.glob {
        GlobMode::Off => {
            for (i, s) in c.srcs.iter().enumerate() {
                let _ = s;
                inv.sources.push(spell(&src_tops[i], eff_spell[i], root_abs, src_is_dir[i]));
            }
        }
        GlobMode::Star => {
            inv.glob = true;
            inv.recursive = true;
            inv.sources.push(b"in/*".to_vec());
        }
        GlobMode::Patterns(seed) => {
            inv.glob = true;
            // one pattern per source; avoid overlapping selections by falling back to the literal
            let mut selected: Vec<Vec<u8>> = vec![];
            for (i, n) in names.iter().enumerate() {
                let s = String::from_utf8_lossy(n).to_string();
                let chars: Vec<char> = s.chars().collect();
                // the glob crate lets a component starting with a literal '.' also match "." and ".."
                // (the whole cwd would become a source): such patterns are outside the domain
                let variant = if chars[0] == '.' { 0 } else { (seed as usize + i * 7) % 4 };
                let pat: String = match variant {
                    0 => s.clone(),
                    1 => format!("{}*", chars[0]),
                    2 => format!("*{}", chars[chars.len() - 1]),
                    _ => {
                        let mut c2 = chars.clone();
                        let k = (seed as usize + i) % c2.len();
                        c2[k] = '?';
                        c2.iter().collect()
                    }
                };
                let matches_of = |p: &str| -> Vec<Vec<u8>> { names.iter().filter(|m| model::comp_match(p.as_bytes(), m)).cloned().collect() };
                let mut chosen = pat.clone();
                let ms = matches_of(&chosen);
                if ms.iter().any(|m| selected.contains(m)) {
                    chosen = s.clone();
                    if selected.contains(n) {
                        continue;
                    }
                }
                for m in matches_of(&chosen) {
                    if !selected.contains(&m) {
                        selected.push(m);
                    }
                }
                inv.sources.push(join(b"in", chosen.as_bytes()));
            }
            if selected.iter().any(|m| {
                let i = names.iter().position(|x| x == m).unwrap();
                src_is_dir[i] || matches!(eff_kinds[i], SrcKind::LinkToDir)
            }) {
                inv.recursive = true;
            }
        }
    }
    Built { ents, inv, edits, real_run, dest_state, has_links, max_depth }
}

fn categorize(d: &str) -> &'static str {
    for c in ["missing", "kind", "content", "link text", "unexpected new entry", "bystander changed", "entry removed", "mode", "mtime"] {
        if d.starts_with(c) {
            return c;
        }
    }
    "other"
}

pub fn judge(c: &Case, rec: &mut Rec) -> Verdict {
    let sb = match Sandbox::new() {
        Ok(s) => s,
        Err(e) => return Verdict::Inconclusive(format!("sandbox: {e}")),
    };
    let root = sb.rootb();
    let b = build(c, &root);
    if let Err(e) = materialise(&sb.root, &b.ents) {
        return Verdict::Inconclusive(format!("materialise: {e}"));
    }
    let argv = b.inv.argv();
    if b.real_run {
        let first = run_plain(&RunSpec::xcp(argv.clone(), &sb.root, &sb.out));
        rec.eval(1);
        rec.count(if first.ok() { "first_run_ok" } else { "first_run_failed" }, 1);
        // edit the sources (replace files / links)
        for e in &b.edits {
            let abs = sb.abs(&e.path);
            if let Ok(m) = std::fs::symlink_metadata(&abs) {
                if !m.is_dir() {
                    let _ = std::fs::remove_file(&abs);
                }
            }
        }
        if let Err(e) = materialise(&sb.root, &b.edits) {
            return Verdict::Inconclusive(format!("edits: {e}"));
        }
    }
    let pre = match snapshot(&sb.root) {
        Ok(s) => s,
        Err(e) => return Verdict::Inconclusive(format!("pre snapshot: {e}; argv {:?}; case {}", b.inv.argv_s(), serde_json::to_string(c).unwrap_or_default())),
    };
    let plan = model::plan(&pre, &root, &b.inv);
    let out = run_plain(&RunSpec::xcp(argv.clone(), &sb.root, &sb.out));
    rec.eval(1);
    if out.timed_out {
        return Verdict::Inconclusive("watchdog".into());
    }
    let post = match snapshot(&sb.root) {
        Ok(s) => s,
        Err(e) => return Verdict::Inconclusive(format!("post snapshot: {e}; argv {:?}; case {}", b.inv.argv_s(), serde_json::to_string(c).unwrap_or_default())),
    };
    let driver = b.inv.driver();
    let mapped = match plan {
        Plan::Copy(m) => m,
        Plan::Reject(why) => {
            rec.class(format!("reject|{}", why.split(' ').next().unwrap_or("")));
            return Verdict::Pass;
        }
        Plan::MustFail(_) => return Verdict::Pass,
        Plan::Unmodelled(why) => {
            rec.count("unmodelled", 1);
            rec.class(format!("unmodelled|{}", why));
            return Verdict::Pass;
        }
    };
    let nsrc = b.inv.sources.len();
    let key = format!(
        "{}|dest={}|nsrc={}|{}{}{}|links={}|exit={}",
        driver,
        b.dest_state,
        std::cmp::min(nsrc, 3),
        if b.inv.glob { "glob," } else { "" },
        if b.inv.no_target_dir { "T," } else { "" },
        if b.inv.target_dir_opt { "td," } else { "" },
        b.has_links,
        if out.ok() { "0" } else { "!0" }
    );
    let new = rec.class(key);
    rec.class(format!("spell|src={:?}|dst={:?}", c.srcs[0].spell, c.dest_spell));
    if b.inv.sources.iter().any(|s| s.ends_with(b"/.") || s.ends_with(b"/..")) {
        rec.class(format!("source-in-contents-form|{}|dest={}", if b.inv.sources[0].ends_with(b"/..") { "dir/sub/.." } else { "dir/." }, b.dest_state));
    }
    if mapped.iter().any(|m| m.top && m.kind == K::L) {
        rec.class("top-symlink-source");
    }
    if c.dest_via_link && b.inv.dest.windows(5).any(|w| w == b"dlink") {
        rec.class("dest-through-symlink");
    }
    if !out.ok() {
        rec.count("exit_nonzero", 1);
        return Verdict::Pass;
    }
    rec.count("exit_zero", 1);
    if b.has_links || b.max_depth >= 2 || b.dest_state == "populated" || b.dest_state == "realrun" || b.inv.glob || nsrc >= 2 {
        rec.nontrivial(case_hash(c));
    }
    if new {
        rec.sample(json!({"argv": b.inv.argv_s(), "dest_state": b.dest_state, "mapped_entries": mapped.len(), "mapping_head": mapped.iter().take(4).map(|m| format!("{} -> {} ({:?})", esc(&m.src), esc(&m.dst), m.kind)).collect::<Vec<_>>()}));
    }
    let opts = model::CmpOpts { allow_new: if b.inv.backup.is_empty() { None } else { Some(super::c04::is_backup_name) }, ..model::CmpOpts::default() };
    if c.extra & 64 != 0 {
        rec.class(format!("gitignore-without-ignore-file|first-source={}|exit={}", match c.srcs[0].kind { SrcKind::Tree(_) => "dir", SrcKind::File(..) => "file", _ => "link" }, if out.ok() { "0" } else { "!0" }));
    }
    if c.extra != 0 {
        rec.class(format!("extra-options|{}", driver));
    }
    let diffs = model::compare_success(&pre, &post, &mapped, &opts);
    if diffs.is_empty() {
        return Verdict::Pass;
    }
    // signature: driver, category of the first difference, kind of source involved, top-level?
    let cat = categorize(&diffs[0]);
    let involved = mapped.iter().filter(|m| diffs[0].contains(&format!(" {} ", esc(&m.dst))) || diffs[0].contains(&format!(" {}:", esc(&m.dst)))).max_by_key(|m| m.dst.len());
    let sk = involved.map(|m| format!("{:?}{}", m.kind, if m.top { "-top" } else { "" })).unwrap_or_else(|| "-".into());
    let sig = format!("C02|{}|{}|{}", driver, cat, sk);
    Verdict::faild(
        sig,
        format!("exit 0 but destination differs from cp's mapping rule: {}", diffs.iter().take(3).cloned().collect::<Vec<_>>().join("; ")),
        json!({"argv": b.inv.argv_s(), "diffs": diffs.iter().take(12).collect::<Vec<_>>(), "dest_state": b.dest_state, "stderr": out.stderr_s(),
               "pre_state": b.ents.iter().take(40).map(|e| format!("{} {}", esc(&e.path), match &e.kind { Kind::Dir => "dir".to_string(), Kind::File(c) => format!("file[{}]", c.len()), Kind::Link(t) => format!("-> {}", esc(t)), k => format!("{:?}", k) })).collect::<Vec<_>>()}),
    )
}

impl Check for C02 {
    fn id(&self) -> &'static str {
        "C02"
    }
    fn rule(&self) -> String {
        "proptest-generated sandbox: 1-3 sources (trees of depth<=4 with files, dirs, relative/absolute/dangling/outward symlinks, names with spaces, unicode, leading dots, '~', backup-like names and non-UTF-8 bytes below the top level; single files; sources that are themselves symlinks), destination absent / file / empty dir / pre-populated (same, differing, kind-changed entries, extras) / populated by a real earlier xcp run followed by source edits; path spellings (./, absolute, by/.., trailing slash, //), -T, --target-directory, --glob patterns, both drivers, workers, block sizes, fifo/socket entries inside trees, option noise (--fsync --no-perms --no-timestamps --backup=numbered|auto --ownership, and --gitignore with no ignore file anywhere), sources spelled dir/. and dir/sub/.. (cp copies the contents onto the destination itself). Oracle: whole-sandbox lstat/readlink/content snapshot after exit 0 must equal the reference model's overlay of the pre-state (every mapped entry has the source's kind, bytes, link text; every other entry unchanged; nothing new). Non-trivial: exit 0 and (links or depth>=2 or populated destination or glob or >=2 sources).".into()
    }
    fn assumptions(&self) -> Vec<String> {
        vec!["reference model = cp -R mapping rule as stated in the property; excluded by construction: destination symlinks at mapped positions, sources with identical basenames, glob patterns without matches".into()]
    }
    fn needs(&self) -> Needs {
        Needs { xcp: true, probe: false, fallback: false }
    }
    fn run_shard(&self, ctx: &Ctx, rec: &mut Rec) {
        let total = match ctx.tier {
            Tier::Quick => 9000,
            Tier::Thorough => 200000,
        };
        prop_loop(ctx, rec, "gen", strategy(), ctx.share(total), judge);
    }
    fn replay(&self, _ctx: &Ctx, _sub: &str, case: &Value) -> Verdict {
        match serde_json::from_value::<Case>(case.clone()) {
            Ok(c) => judge(&c, &mut Rec::default()),
            Err(e) => Verdict::Inconclusive(format!("bad case: {e}")),
        }
    }
    fn min_nontrivial(&self, tier: Tier) -> usize {
        match tier {
            Tier::Quick => 300,
            Tier::Thorough => 3000,
        }
    }
    fn required_classes(&self, _tier: Tier) -> Vec<String> {
        ["dest=absent", "dest=file", "dest=emptydir", "dest=populated", "dest=realrun", "glob,", "T,", "td,", "nsrc=3", "top-symlink-source", "spell|src=Abs", "spell|src=DotDot", "dest-through-symlink", "source-in-contents-form|dir/sub/..", "source-in-contents-form|dir/.", "gitignore-without-ignore-file|first-source=file|exit=0"].iter().map(|s| s.to_string()).collect()
    }
}
