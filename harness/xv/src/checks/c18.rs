//! C18 — --fsync flushes every destination file after its last write.

use super::c02;
use super::c06::{base_strategy, run_cfg, sched_of, sup_spec, RunCfg};
use super::{Check, Needs};
use crate::engine::*;
use crate::model::{self, Plan};
use crate::sandbox::*;
use crate::sup::*;
use crate::util::*;
use proptest::prelude::*;
use serde::{Deserialize, Serialize};
use serde_json::{json, Value};

pub struct C18;

#[derive(Clone, Debug, Serialize, Deserialize)]
pub struct Case {
    pub base: c02::Case,
    pub run: RunCfg,
    /// emulate successful clones for about half of the files
    pub clone_seed: Option<u64>,
    /// also pass --no-perms / --no-timestamps / --ownership (bit 0 / bit 1 / bit 2);
    /// bit 3 (with bit 2): every chown/fchown fails with EPERM - documented as a warning, the fsync must still happen
    pub opts: u8,
    /// source and destination on a memory-backed filesystem (/dev/shm): the request is still to be honoured
    #[serde(default)]
    pub tmpfs: bool,
}

pub fn strategy() -> BoxedStrategy<Case> {
    (base_strategy(), run_cfg(), prop::option::weighted(0.2, any::<u64>()), prop_oneof![3 => 0u8..4, 2 => 0u8..16], prop::bool::weighted(0.12)).prop_map(|(base, run, clone_seed, opts, tmpfs)| Case { base, run, clone_seed, opts, tmpfs }).boxed()
}

pub fn judge(c: &Case, rec: &mut Rec) -> Verdict {
    let sb = match if c.tmpfs { Sandbox::new_in("/dev/shm") } else { Sandbox::new() } {
        Ok(s) => s,
        Err(e) => return Verdict::Inconclusive(format!("sandbox: {e}")),
    };
    let root = sb.rootb();
    let mut base = c.base.clone();
    base.flags = (c.run.parblock, c.run.workers, c.base.flags.2);
    let mut b = c02::build(&base, &root);
    b.inv.fsync = true;
    b.inv.no_perms = c.opts & 1 != 0;
    b.inv.no_timestamps = c.opts & 2 != 0;
    b.inv.ownership = c.opts & 4 != 0;
    let chown_fails = c.opts & 12 == 12;
    if let Err(e) = materialise(&sb.root, &b.ents) {
        return Verdict::Inconclusive(format!("materialise: {e}"));
    }
    let pre = match snapshot(&sb.root) {
        Ok(s) => s,
        Err(e) => return Verdict::Inconclusive(format!("snapshot: {e}")),
    };
    let mapped = match model::plan(&pre, &root, &b.inv) {
        Plan::Copy(m) => m,
        _ => return Verdict::Pass,
    };
    let mut rules = match c.clone_seed {
        Some(s) => vec![Rule { sys: vec![Sys::Ficlone], path: PathSel::Sandbox, nth: Nth::Prob(s, 500), action: Action::EmulateCloneOk }],
        None => vec![],
    };
    if chown_fails {
        rules.push(Rule { sys: vec![Sys::Chown], path: PathSel::Sandbox, nth: Nth::All, action: Action::Errno(libc::EPERM) });
    }
    if let Some(e) = super::c06::cfr_errno(&c.run) {
        rules.push(Rule { sys: vec![Sys::CopyFileRange], path: PathSel::Sandbox, nth: Nth::All, action: Action::Errno(e) });
    }
    let out = Sup::run(sup_spec(&sb, b.inv.argv(), rules, sched_of(&c.run)));
    rec.eval(1);
    if out.setup_error.is_some() {
        return Verdict::Inconclusive(format!("supervisor {:?}", out.setup_error));
    }
    if out.timed_out {
        return Verdict::Inconclusive("watchdog".into());
    }
    let driver = b.inv.driver();
    let bs = b.inv.block.unwrap_or(1_000_000);
    let files: Vec<&model::Mapped> = mapped.iter().filter(|m| m.kind == K::F).collect();
    let multi = files.iter().filter(|m| pre[&m.src].size > bs).count();
    // did blocks of some file complete out of queue order?
    let mut out_of_order = 0;
    for m in &files {
        let abs = join(&root, &m.dst);
        let mut evs: Vec<&Ev> = out.log.iter().filter(|e| e.sys == Sys::CopyFileRange && e.path.as_deref() == Some(abs.as_slice()) && e.ok()).collect();
        evs.sort_by_key(|e| e.t_out);
        // explicit offsets are passed by pointer; use issue order vs completion order instead
        let issue: Vec<u64> = evs.iter().map(|e| e.t_in).collect();
        if issue.windows(2).any(|w| w[0] > w[1]) {
            out_of_order += 1;
        }
    }
    let key = format!(
        "{}|w{}|{}|multiblock={}|reordered={}|{}|exit={}",
        driver,
        c.run.workers,
        format!("{:?}", sched_of(&c.run).kind).split('(').next().unwrap_or(""),
        std::cmp::min(multi, 2),
        out_of_order > 0,
        if c.clone_seed.is_some() { "some-cloned" } else if c.run.cfr != 0 { "copied-in-user-space" } else { "copied" },
        if out.ok() { "0" } else { "!0" }
    );
    let new = rec.class(key);
    if c.tmpfs {
        rec.class(format!("on-tmpfs|{}|exit={}", driver, if out.ok() { "0" } else { "!0" }));
    }
    if b.inv.ownership {
        rec.class(format!("ownership|chown-fails={}|exit={}", chown_fails, if out.ok() { "0" } else { "!0" }));
    }
    if !out.ok() {
        rec.count("exit_nonzero", 1);
        return Verdict::Pass;
    }
    if !files.is_empty() && (multi > 0 || files.len() >= 4) && c.run.workers >= 2 {
        rec.nontrivial(case_hash(c));
    }
    rec.count("files_with_reordered_block_completion", out_of_order as i64);
    if new {
        rec.sample(json!({"argv": b.inv.argv_s(), "schedule": format!("{:?}", sched_of(&c.run)), "regular_files": files.len(), "multi_block_files": multi, "files_with_reordered_completion": out_of_order}));
    }
    for m in &files {
        let abs = join(&root, &m.dst);
        let last_write = out
            .log
            .iter()
            .filter(|e| e.path.as_deref() == Some(abs.as_slice()) && e.ok() && (e.sys.is_data_write() || e.sys == Sys::Ftruncate || e.sys == Sys::Fallocate || e.sys == Sys::Ficlone))
            .map(|e| e.t_out)
            .max();
        let last_sync = out.log.iter().filter(|e| e.sys == Sys::Fsync && e.ok() && e.path.as_deref() == Some(abs.as_slice())).map(|e| e.t_in).max();
        let bad = match (last_write, last_sync) {
            (_, None) => Some(format!("no fsync at all on {}", esc(&m.dst))),
            (Some(w), Some(s)) if s < w => Some(format!("last fsync on {} (stamp {}) precedes the end of its last write (stamp {})", esc(&m.dst), s, w)),
            _ => None,
        };
        if let Some(msg) = bad {
            let what = if last_sync.is_none() { "no-fsync" } else { "fsync-before-last-write" };
            return Verdict::faild(
                format!("C18|{}|{}", driver, what),
                format!("--fsync exit 0 but {}", msg),
                json!({"argv": b.inv.argv_s(), "schedule": format!("{:?}", sched_of(&c.run)),
                       "calls_on_file": out.log.iter().filter(|e| e.path.as_deref() == Some(abs.as_slice())).map(|e| e.short()).collect::<Vec<_>>()}),
            );
        }
    }
    Verdict::Pass
}

impl Check for C18 {
    fn id(&self) -> &'static str {
        "C18"
    }
    fn rule(&self) -> String {
        "C06's generated trees (files of up to 137 blocks, empty files, nested directories, links) copied with --fsync under the ptrace supervisor with a generated (driver, workers in {1,2,3,4,8,16,64}, schedule kind incl. one starved worker and workers-first, seed, priority change points); for a fifth of the cases FICLONE is emulated as successful for about half of the files; for a seventh copy_file_range is unavailable (user-space fallback: pwrite); --no-perms/--no-timestamps/--ownership noise, with --ownership optionally every chown failing with EPERM (a documented warning: exit 0 and the fsync still due); one case in eight with source and destination on tmpfs (/dev/shm). Oracle over the syscall log of every exit-0 run, per regular destination file: a successful fsync/fdatasync on that file is issued after the return of the last copy_file_range/write/pwrite/ftruncate/fallocate/successful FICLONE on it (global entry/exit stamps), i.e. before exit. Non-trivial: exit 0, >= 2 workers and (a multi-block file or >= 4 files); the class key records whether block completions were reordered relative to issue order; distinct by case hash.".into()
    }
    fn needs(&self) -> Needs {
        Needs { xcp: true, probe: false, fallback: false }
    }
    fn run_shard(&self, ctx: &Ctx, rec: &mut Rec) {
        let total = match ctx.tier {
            Tier::Quick => 1500,
            Tier::Thorough => 40000,
        };
        prop_loop(ctx, rec, "gen", strategy(), ctx.share(total), judge);
    }
    fn replay(&self, ctx: &Ctx, _sub: &str, case: &Value) -> Verdict {
        match serde_json::from_value::<Case>(case.clone()) {
            Ok(c) => {
                let mut last = Verdict::Pass;
                for _ in 0..ctx.replay_attempts {
                    last = judge(&c, &mut Rec::default());
                    if matches!(last, Verdict::Fail(..)) {
                        return last;
                    }
                }
                last
            }
            Err(e) => Verdict::Inconclusive(format!("bad case: {e}")),
        }
    }
    fn min_nontrivial(&self, tier: Tier) -> usize {
        match tier {
            Tier::Quick => 500,
            Tier::Thorough => 10000,
        }
    }
    fn required_classes(&self, _tier: Tier) -> Vec<String> {
        ["parblock|", "parfile|", "StarveWorker", "multiblock=2", "some-cloned", "copied-in-user-space", "w64|", "w1|", "on-tmpfs|parfile|exit=0", "on-tmpfs|parblock|exit=0", "ownership|chown-fails=true|exit=0"].iter().map(|s| s.to_string()).collect()
    }
}
