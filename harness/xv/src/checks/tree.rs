//! Generated source trees, destination pre-states and invocations shared by the tree-shaped checks.

use crate::model::Inv;
use crate::spec::*;
use crate::util::*;
use proptest::prelude::*;
use serde::{Deserialize, Serialize};
use std::collections::BTreeMap;

/// entry names; index 0..TOP_SAFE are usable as command-line arguments (UTF-8, no leading dash)
pub const NAMES: &[&[u8]] = &[
    b"a", b"b", b"c", b"d1", b"e.txt", b"f g", "\u{fc}ber".as_bytes(), "\u{65e5}\u{672c}".as_bytes(), b".h", b"x~", b"y.~1~", b"k.rs",
    // below: only inside directories
    b"-m", b"z\xff\xfe", b"n\nl", b"\xc3(", b"q*", b"[r]",
];
pub const TOP_SAFE: usize = 12;
/// names safe inside glob patterns (no metacharacters)
pub const GLOB_SAFE: usize = 12;

#[derive(Clone, Debug, Serialize, Deserialize)]
pub enum GK {
    Dir,
    File(u32, u8),
    /// relative link to the entry with this (monotonic) index in the same tree
    LinkRel(u16),
    /// absolute link to an entry of the same tree
    LinkAbs(u16),
    /// link to a bystander file outside the source (by/keep)
    LinkOut,
    LinkDangling,
    /// special files inside trees (never opened by anybody)
    Fifo,
    Sock,
    /// relative link whose text carries redundant components: 0 "./t", 1 "t" with "//", 2 "x/../t"-style
    /// detour through the link's own directory name, 3 trailing "/." - the text must be copied verbatim
    LinkRelDecor(u16, u8),
    /// sparse regular file: (data bytes, hole in 4 KiB blocks, hole first?)
    Sparse(u16, u8, bool),
}

#[derive(Clone, Debug, Serialize, Deserialize)]
pub struct GEnt {
    pub parent: u16,
    pub name: u8,
    pub kind: GK,
    pub mode: u16,
    pub mtime: u32,
}

pub fn small_len() -> BoxedStrategy<u32> {
    prop_oneof![2 => Just(0u32), 8 => 1u32..200, 2 => 4000u32..9000, 1 => 60000u32..140000].boxed()
}

pub fn gent(max_name: usize, links: bool) -> BoxedStrategy<GEnt> {
    let kind = if links {
        prop_oneof![
            3 => Just(GK::Dir),
            8 => (small_len(), 0u8..8).prop_map(|(l, s)| GK::File(l, s)),
            2 => any::<u16>().prop_map(GK::LinkRel),
            1 => any::<u16>().prop_map(GK::LinkAbs),
            1 => Just(GK::LinkOut),
            1 => Just(GK::LinkDangling),
            1 => prop_oneof![Just(GK::Fifo), Just(GK::Sock)],
            1 => (any::<u16>(), 0u8..4).prop_map(|(t, d)| GK::LinkRelDecor(t, d)),
            1 => (1u16..9000, 1u8..40, any::<bool>()).prop_map(|(d, h, f)| GK::Sparse(d, h, f)),
        ]
        .boxed()
    } else {
        prop_oneof![3 => Just(GK::Dir), 8 => (small_len(), 0u8..8).prop_map(|(l, s)| GK::File(l, s)), 1 => (1u16..9000, 1u8..40, any::<bool>()).prop_map(|(d, h, f)| GK::Sparse(d, h, f))].boxed()
    };
    (any::<u16>(), 0..max_name as u8, kind, prop_oneof![Just(0o644u16), Just(0o600), Just(0o755), Just(0o444), Just(0o640)], 0u32..4)
        .prop_map(|(parent, name, kind, mode, mtime)| GEnt { parent, name, kind, mode, mtime })
        .boxed()
}

pub const MTIMES: &[(i64, u32)] = &[(1_000_000_000, 0), (1_500_000_000, 123_456_789), (1_700_000_000, 999_999_999), (86_400, 1)];

fn relpath(from_dir: &[u8], to: &[u8]) -> Vec<u8> {
    // both relative to the same root, no symlinks involved in these components
    let f: Vec<&[u8]> = from_dir.split(|c| *c == b'/').filter(|c| !c.is_empty()).collect();
    let t: Vec<&[u8]> = to.split(|c| *c == b'/').filter(|c| !c.is_empty()).collect();
    let mut i = 0;
    while i < f.len() && i < t.len() && f[i] == t[i] {
        i += 1;
    }
    let mut out: Vec<u8> = vec![];
    for _ in i..f.len() {
        out = join(&out, b"..");
    }
    for c in &t[i..] {
        out = join(&out, c);
    }
    if out.is_empty() {
        out = b".".to_vec();
    }
    out
}

/// Build concrete entries below directory `top` (which is itself emitted as a Dir entry first).
/// `root_abs` is needed for absolute links. Depth is limited to `max_depth` below top.
pub fn build_tree(top: &[u8], gents: &[GEnt], root_abs: &[u8], max_depth: usize) -> Vec<Ent> {
    let mut ents: Vec<Ent> = vec![Ent::dir(top)];
    let mut dirs: Vec<(Vec<u8>, usize)> = vec![(top.to_vec(), 0)];
    let mut used: BTreeMap<Vec<u8>, ()> = BTreeMap::new();
    used.insert(top.to_vec(), ());
    // first pass: paths and kinds except link targets
    let mut pending_links: Vec<(usize, GK)> = vec![];
    for (i, g) in gents.iter().enumerate() {
        let di = monotonic_index(g.parent, dirs.len());
        let (mut dpath, mut depth) = dirs[di].clone();
        if depth >= max_depth {
            dpath = top.to_vec();
            depth = 0;
        }
        let mut name = NAMES[g.name as usize % NAMES.len()].to_vec();
        let mut path = join(&dpath, &name);
        if used.contains_key(&path) {
            name.extend_from_slice(format!("_{}", i).as_bytes());
            path = join(&dpath, &name);
        }
        used.insert(path.clone(), ());
        let mt = MTIMES[g.mtime as usize % MTIMES.len()];
        match &g.kind {
            GK::Dir => {
                ents.push(Ent::dir(&path).with_mode(0o755).with_mtime(mt.0, mt.1));
                dirs.push((path, depth + 1));
            }
            GK::File(l, s) => {
                ents.push(Ent::file(&path, Content::data(*l as u64, *s)).with_mode(g.mode as u32).with_mtime(mt.0, mt.1));
            }
            GK::Sparse(d, h, first) => {
                // a third of them with two data runs (two extents: two queued ranges in the block driver)
                let segs = if *h % 3 == 0 { vec![Seg::Data(*d as u64, 3), Seg::Hole(*h as u64 * 4096), Seg::Data(*d as u64 / 2 + 1, 4)] } else if *first { vec![Seg::Hole(*h as u64 * 4096), Seg::Data(*d as u64, 3)] } else { vec![Seg::Data(*d as u64, 3), Seg::Hole(*h as u64 * 4096)] };
                ents.push(Ent::file(&path, Content { segs, sync: i % 2 == 0 }).with_mode(g.mode as u32).with_mtime(mt.0, mt.1));
            }
            GK::Fifo => ents.push(Ent::new(&path, Kind::Fifo).with_mode(0o644)),
            GK::Sock => ents.push(Ent::new(&path, Kind::Sock).with_mode(0o644)),
            k => {
                ents.push(Ent::link(&path, b"?"));
                pending_links.push((ents.len() - 1, k.clone()));
            }
        }
    }
    // second pass: link targets
    let n = ents.len();
    for (ei, k) in pending_links {
        let ldir = parent(&ents[ei].path).to_vec();
        let target: Vec<u8> = match k {
            GK::LinkRel(t) => {
                let mut ti = monotonic_index(t, n);
                if ti == ei {
                    ti = 0;
                }
                relpath(&ldir, &ents[ti].path)
            }
            GK::LinkRelDecor(t, d) => {
                let mut ti = monotonic_index(t, n);
                if ti == ei {
                    ti = 0;
                }
                let plain = relpath(&ldir, &ents[ti].path);
                match d % 4 {
                    0 => join(b".", &plain),
                    1 => {
                        let mut v = vec![];
                        for (k, c) in plain.split(|c| *c == b'/').enumerate() {
                            if k > 0 {
                                v.extend_from_slice(b"//");
                            }
                            v.extend_from_slice(c);
                        }
                        v
                    }
                    2 => {
                        // <own dir name>/../<plain> resolved from the parent: only when the link's directory has a parent
                        // inside the tree; else "./././plain"
                        join(b"././.", &plain)
                    }
                    _ => {
                        let mut v = plain.clone();
                        if matches!(ents[ti].kind, Kind::Dir) {
                            v.extend_from_slice(b"/.");
                        }
                        v
                    }
                }
            }
            GK::LinkAbs(t) => {
                let mut ti = monotonic_index(t, n);
                if ti == ei {
                    ti = 0;
                }
                join(root_abs, &ents[ti].path)
            }
            GK::LinkOut => relpath(&ldir, b"by/keep"),
            _ => b"no/such/target".to_vec(),
        };
        ents[ei].kind = Kind::Link(target);
    }
    ents
}

#[derive(Clone, Copy, Debug, Serialize, Deserialize, PartialEq)]
pub enum Spell {
    Plain,
    DotSlash,
    Abs,
    /// by/../<path>
    DotDot,
    /// trailing slash (directories only)
    Slash,
    /// a//b
    DoubleSlash,
    /// <dir>/.  (directories only): cp copies the directory's contents onto the destination itself
    SlashDot,
    /// <dir>/.xvd/..  (directories only; the caller creates the empty directory .xvd inside): same meaning
    ChildDotDot,
}

pub fn spell(p: &[u8], s: Spell, root_abs: &[u8], is_dir: bool) -> Vec<u8> {
    match s {
        Spell::Plain => p.to_vec(),
        Spell::DotSlash => join(b".", p),
        Spell::Abs => join(root_abs, p),
        Spell::DotDot => join(b"by/..", p),
        Spell::Slash => {
            if is_dir {
                let mut v = p.to_vec();
                v.push(b'/');
                v
            } else {
                p.to_vec()
            }
        }
        Spell::DoubleSlash => {
            let mut v = b".//".to_vec();
            v.extend_from_slice(p);
            v
        }
        Spell::SlashDot => {
            if is_dir {
                join(p, b".")
            } else {
                p.to_vec()
            }
        }
        Spell::ChildDotDot => {
            if is_dir {
                join(p, b".xvd/..")
            } else {
                p.to_vec()
            }
        }
    }
}

pub fn any_spell() -> BoxedStrategy<Spell> {
    prop_oneof![6 => Just(Spell::Plain), 1 => Just(Spell::DotSlash), 1 => Just(Spell::Abs), 1 => Just(Spell::DotDot), 1 => Just(Spell::Slash), 1 => Just(Spell::DoubleSlash), 1 => Just(Spell::SlashDot), 1 => Just(Spell::ChildDotDot)].boxed()
}

/// Standard bystanders present in every tree-shaped case.
pub fn bystanders() -> Vec<Ent> {
    vec![
        Ent::dir(b"by").with_mtime(1_111_111_111, 5),
        Ent::file(b"by/keep", Content::data(77, 5)).with_mode(0o640).with_mtime(1_222_222_222, 7),
        Ent::link(b"by/lnk", b"keep"),
        Ent::dir(b"by/sub"),
        Ent::file(b"by/sub/deep", Content::data(5, 6)),
    ]
}

pub fn common_flags() -> BoxedStrategy<(bool, u8, Option<u64>)> {
    // (parblock, workers, block)
    (any::<bool>(), prop_oneof![4 => Just(4u8), 2 => 1u8..=8, 1 => Just(16u8)], prop_oneof![3 => Just(None), 1 => Just(Some(1024u64)), 1 => Just(Some(4096u64)), 1 => Just(Some(65536u64))]).boxed()
}

pub fn apply_common(inv: &mut Inv, f: (bool, u8, Option<u64>)) {
    inv.parblock = f.0;
    inv.workers = f.1;
    inv.block = f.2;
}
