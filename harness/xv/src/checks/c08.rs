//! C08 — --no-clobber never alters anything that already exists in the destination.

use super::c06::{sched_of, sup_spec, RunCfg};
use super::tree::*;
use super::{Check, Needs};
use crate::engine::*;
use crate::model::{self, Inv, Plan};
use crate::run::*;
use crate::sandbox::*;
use crate::spec::*;
use crate::sup::*;
use crate::util::*;
use proptest::prelude::*;
use serde::{Deserialize, Serialize};
use serde_json::{json, Value};

pub struct C08;

#[derive(Clone, Debug, Serialize, Deserialize)]
pub struct Src {
    /// 0 file, 1 symlink, 2 fifo, 3 socket, 4 directory with children
    pub kind: u8,
    pub len: u32,
    pub children: Vec<GEnt>,
}

#[derive(Clone, Debug, Serialize, Deserialize)]
pub struct Collision {
    /// which mapped entry (monotonic index into the list of mapped non-top entries / top entries)
    pub which: u16,
    /// 0 file, 1 directory, 2 valid symlink, 3 dangling symlink, 4 fifo, 5 socket
    pub dest_kind: u8,
    /// collide at the top entry of a source (true) or somewhere below a directory source (false)
    pub top: bool,
}

#[derive(Clone, Debug, Serialize, Deserialize)]
pub struct Case {
    pub srcs: Vec<Src>,
    pub collisions: Vec<Collision>,
    pub extras: u8,
    pub flags: (bool, u8, Option<u64>),
    pub sched: Option<RunCfg>,
    /// further options combined with -n: backup 0 none / 1 numbered / 2 auto (with an older backup present),
    /// bit 2: --no-perms, bit 3: --fsync
    #[serde(default)]
    pub extra_opts: u8,
    /// -T: only the first source is used and it maps onto d/t itself (pre-created by the first collision, if any)
    #[serde(default)]
    pub no_target_dir: bool,
}

pub fn strategy() -> BoxedStrategy<Case> {
    let src = (prop_oneof![5 => Just(0u8), 2 => Just(1u8), 1 => Just(2u8), 1 => Just(3u8), 3 => Just(4u8)], prop_oneof![4 => 0u32..3000, 1 => 100000u32..600000], prop::collection::vec(gent(TOP_SAFE, true), 1..8))
        .prop_map(|(kind, len, children)| Src { kind, len, children });
    let col = (any::<u16>(), 0u8..6, prop::bool::weighted(0.7)).prop_map(|(which, dest_kind, top)| Collision { which, dest_kind, top });
    (prop::collection::vec(src, 1..5), prop::collection::vec(col, 0..3), 0u8..4, common_flags(), prop::option::weighted(0.17, super::c06::run_cfg()), prop_oneof![3 => Just(0u8), 2 => 0u8..16], prop::bool::weighted(0.12))
        .prop_map(|(srcs, collisions, extras, flags, sched, extra_opts, no_target_dir)| Case { srcs, collisions, extras, flags, sched, extra_opts, no_target_dir })
        .boxed()
}

pub fn build(c: &Case, root: &[u8]) -> (Vec<Ent>, Inv, usize) {
    let mut ents = bystanders();
    ents.push(Ent::dir(b"d").with_mtime(1_300_000_000, 0));
    let mut inv = Inv::default();
    apply_common(&mut inv, c.flags);
    inv.no_clobber = true;
    inv.dest = b"d".to_vec();
    inv.backup = match c.extra_opts & 3 {
        1 => "numbered".into(),
        2 => "auto".into(),
        _ => String::new(),
    };
    inv.no_perms = c.extra_opts & 4 != 0;
    inv.fsync = c.extra_opts & 8 != 0;
    let mut tops: Vec<(Vec<u8>, Vec<u8>)> = vec![]; // (src path, dst path)
    let mut below: Vec<(Vec<u8>, Vec<u8>)> = vec![];
    if c.no_target_dir {
        inv.no_target_dir = true;
        inv.dest = b"d/t".to_vec();
    }
    for (i, s) in c.srcs.iter().enumerate().take(if c.no_target_dir { 1 } else { usize::MAX }) {
        let name = format!("s{}", i).into_bytes();
        let dst = if c.no_target_dir { b"d/t".to_vec() } else { join(b"d", &name) };
        match s.kind % 5 {
            0 => ents.push(Ent::file(&name, Content::data(s.len as u64, i as u8)).with_mtime(1_500_000_000, 1)),
            1 => ents.push(Ent::link(&name, b"by/keep")),
            2 => ents.push(Ent::new(&name, Kind::Fifo)),
            3 => ents.push(Ent::new(&name, Kind::Sock)),
            _ => {
                let t = build_tree(&name, &s.children, root, 2);
                for e in t.iter().skip(1) {
                    if !matches!(e.kind, Kind::Dir) {
                        below.push((e.path.clone(), if c.no_target_dir { [b"d/t".as_slice(), &e.path[name.len()..]].concat() } else { join(b"d", &e.path) }));
                    }
                }
                ents.extend(t);
                inv.recursive = true;
            }
        }
        if s.kind % 5 != 4 {
            tops.push((name.clone(), dst));
        }
        inv.sources.push(name);
    }
    // pre-existing colliding entries
    let mut made: Vec<Vec<u8>> = vec![];
    let mut ncoll = 0;
    for col in &c.collisions {
        let list = if col.top || below.is_empty() { &tops } else { &below };
        if list.is_empty() {
            continue;
        }
        let (_, dst) = &list[monotonic_index(col.which, list.len())];
        if made.iter().any(|m| m == dst || dst.starts_with(&join(m, b"")) || m.starts_with(&join(dst, b""))) {
            continue;
        }
        made.push(dst.clone());
        ncoll += 1;
        if c.extra_opts & 3 == 2 && col.dest_kind % 6 == 0 {
            // auto mode only backs up when an older backup exists
            let mut b = dst.clone();
            b.extend_from_slice(b".~3~");
            ents.push(Ent::file(&b, Content::data(5, 41)));
        }
        let e = match col.dest_kind % 6 {
            0 => Ent::file(dst, Content::data(41, 40)).with_mode(0o640).with_mtime(1_200_000_000, 77),
            1 => Ent::dir(dst),
            2 => Ent::link(dst, &join(root, b"by/keep")),
            3 => Ent::link(dst, &join(root, b"by/created_through_link")),
            4 => Ent::new(dst, Kind::Fifo),
            _ => Ent::new(dst, Kind::Sock),
        };
        ents.push(e);
    }
    for x in 0..c.extras {
        ents.push(Ent::file(&join(b"d", format!("unrelated_{}", x).as_bytes()), Content::data(12, 50)).with_mtime(1_100_000_000, 9));
    }
    (ents, inv, ncoll)
}

pub fn judge(c: &Case, rec: &mut Rec) -> Verdict {
    let sb = match Sandbox::new() {
        Ok(s) => s,
        Err(e) => return Verdict::Inconclusive(format!("sandbox: {e}")),
    };
    let root = sb.rootb();
    let (ents, inv, _) = build(c, &root);
    if let Err(e) = materialise(&sb.root, &ents) {
        return Verdict::Inconclusive(format!("materialise: {e}"));
    }
    let pre = match snapshot(&sb.root) {
        Ok(s) => s,
        Err(e) => return Verdict::Inconclusive(format!("snapshot: {e}")),
    };
    let mapped = match model::plan(&pre, &root, &inv) {
        Plan::Copy(m) => m,
        other => {
            rec.class(format!("noplan|{:?}", other).chars().take(40).collect::<String>());
            return Verdict::Pass;
        }
    };
    let (ok, code, timed_out, stderr, sched_name) = if let Some(r) = &c.sched {
        let mut r = r.clone();
        r.parblock = c.flags.0;
        let o = Sup::run(sup_spec(&sb, inv.argv(), vec![], sched_of(&r)));
        if o.setup_error.is_some() {
            return Verdict::Inconclusive(format!("supervisor {:?}", o.setup_error));
        }
        (o.ok(), o.code, o.timed_out, o.stderr_s(), format!("{:?}", sched_of(&r).kind))
    } else {
        let o = run_plain(&RunSpec::xcp(inv.argv(), &sb.root, &sb.out));
        (o.ok(), o.code, o.timed_out, o.stderr_s(), "unsupervised".to_string())
    };
    rec.eval(1);
    if timed_out {
        return Verdict::Inconclusive("watchdog".into());
    }
    let post = match snapshot(&sb.root) {
        Ok(s) => s,
        Err(e) => return Verdict::Inconclusive(format!("snapshot: {e}")),
    };
    let driver = inv.driver();
    // collisions: a source file/link/special node mapping onto an entry that exists (lstat) in the pre-state
    let colliding: Vec<&model::Mapped> = mapped.iter().filter(|m| m.kind != K::D && pre.contains_key(&m.dst)).collect();
    let dir_collision = mapped.iter().any(|m| m.kind == K::D && pre.contains_key(&m.dst));
    let pair = colliding.first().map(|m| format!("{:?}->{:?}{}", m.kind, pre[&m.dst].kind, if pre[&m.dst].kind == K::L && !matches!(model::resolve(&pre, &root, &m.dst, true), model::Res::Found(_)) { "(dangling)" } else { "" })).unwrap_or_else(|| "none".into());
    // position: is the first collision behind other, non-colliding work in walk order?
    let pos = match colliding.first() {
        Some(m) if m.arg == 0 => "early",
        Some(_) => "late",
        None => "-",
    };
    let shadowed = !colliding.is_empty() && colliding.iter().all(|m| !m.top);
    if !inv.backup.is_empty() {
        rec.class(format!("with-backup={}", inv.backup));
    }
    if c.no_target_dir {
        rec.class(format!("no-target-dir|{}|exit={}", pair, if ok { "0" } else { "!0" }));
    }
    let key = format!("{}|{}|{}|{}|{}|exit={}", driver, pair, if shadowed { "deep" } else { "top" }, pos, if c.sched.is_some() { "scheduled" } else { "plain" }, if ok { "0" } else { "!0" });
    let new = rec.class(key);
    rec.class(format!("sched|{}", sched_name.split('(').next().unwrap_or("")));
    let noncolliding = mapped.iter().any(|m| !pre.contains_key(&m.dst));
    if !colliding.is_empty() && noncolliding && !shadowed {
        rec.nontrivial(case_hash(c));
    }
    if new {
        rec.sample(json!({"argv": inv.argv_s(), "collisions": colliding.iter().take(3).map(|m| format!("{} ({:?}) -> existing {} ({:?})", esc(&m.src), m.kind, esc(&m.dst), pre[&m.dst].kind)).collect::<Vec<_>>(), "exit": code, "schedule": sched_name}));
    }
    // (a) every pre-existing entry, anywhere, is unchanged (directories may gain entries)
    let mut diffs = vec![];
    for (p, a) in &pre {
        match post.get(p) {
            None => diffs.push(format!("removed: {}", esc(p))),
            Some(b) => {
                if let Some(d) = model::meta_diff(a, b, a.kind == K::D) {
                    diffs.push(format!("changed: {}: {}", esc(p), d));
                }
            }
        }
    }
    // nothing may appear outside the destination either (e.g. a file written through a dangling link)
    for p in post.keys() {
        if !pre.contains_key(p) && !(p.starts_with(b"d/")) {
            diffs.push(format!("created outside the destination: {}", esc(p)));
        }
    }
    if !diffs.is_empty() {
        let through = diffs.iter().any(|d| d.contains("created_through_link"));
        return Verdict::faild(
            format!("C08|{}|existing-entry-changed{}", driver, if through { "|through-dangling-link" } else { "" }),
            format!("--no-clobber but: {}", diffs.iter().take(3).cloned().collect::<Vec<_>>().join("; ")),
            json!({"argv": inv.argv_s(), "exit": code, "diffs": diffs.iter().take(10).collect::<Vec<_>>(), "stderr": stderr, "schedule": sched_name}),
        );
    }
    // (b) a collision must end the run with a non-zero status
    if !colliding.is_empty() && ok {
        return Verdict::faild(
            format!("C08|{}|collision-exit0|{}", driver, pair),
            format!("--no-clobber: {} maps onto existing {} but exit 0", esc(&colliding[0].src), esc(&colliding[0].dst)),
            json!({"argv": inv.argv_s(), "schedule": sched_name}),
        );
    }
    let _ = dir_collision;
    Verdict::Pass
}

impl Check for C08 {
    fn id(&self) -> &'static str {
        "C08"
    }
    fn rule(&self) -> String {
        "proptest-generated: 1-4 sources (regular files incl. multi-block ones, symlinks, fifos, sockets, directories with children) copied with -n into an existing directory pre-populated with 0-2 colliding entries (regular file, directory, valid symlink, dangling symlink, fifo, socket) at the mapped path of a top-level source or of an entry below a directory source, plus unrelated entries; both drivers, workers 1-16; -n optionally combined with --backup=numbered|auto, --no-perms, --fsync; one case in eight as -T with a single source mapped onto d/t itself (pre-created by the first collision, if any); one run in six under the supervisor's scheduler (random / walker-first / workers-first / starved worker). Oracle: every entry that existed before, anywhere in the sandbox, is unchanged (content, kind, link text, mode, owner, mtime for non-directories) and nothing appears outside the destination; if a source file, link or special node maps onto an existing entry (lstat) the exit status is non-zero. Non-trivial: >=1 collision at a reachable (top-level) position together with >=1 non-colliding entry; distinct by case hash. Collisions only below a directory source are generated too but reported as the shadowed class 'deep'.".into()
    }
    fn needs(&self) -> Needs {
        Needs { xcp: true, probe: false, fallback: false }
    }
    fn run_shard(&self, ctx: &Ctx, rec: &mut Rec) {
        let total = match ctx.tier {
            Tier::Quick => 9000,
            Tier::Thorough => 200000,
        };
        prop_loop(ctx, rec, "gen", strategy(), ctx.share(total), judge);
    }
    fn replay(&self, ctx: &Ctx, _sub: &str, case: &Value) -> Verdict {
        match serde_json::from_value::<Case>(case.clone()) {
            Ok(c) => {
                let mut last = Verdict::Pass;
                for _ in 0..(if c.sched.is_some() { ctx.replay_attempts } else { 1 }) {
                    last = judge(&c, &mut Rec::default());
                    if matches!(last, Verdict::Fail(..)) {
                        return last;
                    }
                }
                last
            }
            Err(e) => Verdict::Inconclusive(format!("bad case: {e}")),
        }
    }
    fn min_nontrivial(&self, tier: Tier) -> usize {
        match tier {
            Tier::Quick => 400,
            Tier::Thorough => 4000,
        }
    }
    fn required_classes(&self, _tier: Tier) -> Vec<String> {
        ["F->F", "F->L(dangling)", "L->", "Fifo->", "Sock->", "->D", "|late|", "|early|", "|deep|", "scheduled", "sched|WorkersFirst", "with-backup=numbered", "with-backup=auto", "no-target-dir|F->F", "no-target-dir|none|exit=0"].iter().map(|s| s.to_string()).collect()
    }
}
