//! C13 — --dereference copies what links point to, or fails; never leaves links or gaps.

use super::tree::*;
use super::{Check, Needs};
use crate::engine::*;
use crate::model::{self, Inv, Plan};
use crate::run::*;
use crate::sandbox::*;
use crate::spec::*;
use crate::util::*;
use proptest::prelude::*;
use serde::{Deserialize, Serialize};
use serde_json::{json, Value};

pub struct C13;

#[derive(Clone, Debug, Serialize, Deserialize)]
pub enum Extra {
    /// chain of `len` links ending at a file (false) or a directory with content (true)
    Chain(u8, bool),
    /// x -> y, y -> x
    Cycle2,
    /// link to the parent directory (an ancestor)
    UpLink,
    /// link to itself
    SelfLoop,
    /// link to a directory outside the source (by/sub), relative or absolute
    OutDir(bool),
    /// link to a directory inside the source which itself contains links
    DirWithLinks,
    /// chain across directories with relative hops: s/x -> xsub/hop, s/xsub/hop -> final (relative to xsub),
    /// with a decoy of the same name next to the first link
    CrossDirChain(bool),
    /// a chain of this many nested real directories with a file at the bottom, reached through a link (true)
    /// or directly (false)
    Deep(u16, bool),
}

#[derive(Clone, Debug, Serialize, Deserialize)]
pub struct Case {
    pub tree: Vec<GEnt>,
    pub extras: Vec<Extra>,
    pub flags: (bool, u8, Option<u64>),
    pub dest_exists: bool,
    /// the source argument itself is a link to the tree
    pub top_link: bool,
    /// no bad links at all (strip dangling ones from the tree) so that success paths are exercised
    pub clean: bool,
    /// bit 0: also pass --gitignore (no ignore file anywhere: must not change anything);
    /// bit 1: the sources are given as the pattern 's/*' with --glob (every child of s is a source of its own)
    #[serde(default)]
    pub opts: u8,
    /// 0: the xcp binary; 1-3: a libxcp client (probe) with the record / channel / noop updater and
    /// Config{dereference: true} - "exits non-zero" then means copy() returns an error
    #[serde(default)]
    pub via_lib: u8,
}

pub fn strategy() -> BoxedStrategy<Case> {
    let extra = prop_oneof![
        4 => (prop_oneof![Just(1u8), Just(2), Just(3), Just(10), Just(39), Just(40), Just(41)], any::<bool>()).prop_map(|(l, d)| Extra::Chain(l, d)),
        1 => Just(Extra::Cycle2),
        1 => Just(Extra::UpLink),
        1 => Just(Extra::SelfLoop),
        3 => any::<bool>().prop_map(Extra::OutDir),
        2 => Just(Extra::DirWithLinks),
        2 => any::<bool>().prop_map(Extra::CrossDirChain),
        1 => (prop_oneof![Just(40u16), Just(150u16), Just(300u16)], any::<bool>()).prop_map(|(d, l)| Extra::Deep(d, l)),
    ];
    (prop::collection::vec(gent(NAMES.len(), true), 0..12), prop::collection::vec(extra, 0..3), common_flags(), any::<bool>(), prop::bool::weighted(0.15), prop::bool::weighted(0.6), prop_oneof![5 => Just(0u8), 2 => Just(1u8), 2 => Just(2u8), 1 => Just(3u8)], prop_oneof![5 => Just(0u8), 1 => 1u8..4])
        .prop_map(|(tree, extras, flags, dest_exists, top_link, clean, opts, via_lib)| {
            let opts = if via_lib != 0 { 0 } else { opts };
            Case { tree, extras, flags, dest_exists: dest_exists || opts & 2 != 0, top_link, clean, opts, via_lib }
        })
        .boxed()
}

pub fn build(c: &Case, root: &[u8]) -> (Vec<Ent>, Inv) {
    let mut ents = bystanders();
    let mut tree = c.tree.clone();
    if c.clean {
        for g in tree.iter_mut() {
            if matches!(g.kind, GK::LinkDangling) {
                g.kind = GK::LinkOut;
            }
        }
    }
    ents.extend(build_tree(b"s", &tree, root, 3));
    for (i, x) in c.extras.iter().enumerate() {
        let p = |n: &str| format!("s/x{}_{}", i, n).into_bytes();
        match x {
            Extra::Chain(len, to_dir) => {
                if c.clean && *len > 40 {
                    continue;
                }
                // target
                let tname = p("target");
                if *to_dir {
                    ents.push(Ent::dir(&tname));
                    ents.push(Ent::file(&join(&tname, b"inside"), Content::data(21, 3)));
                    ents.push(Ent::dir(&join(&tname, b"deeper")));
                    ents.push(Ent::file(&join(&tname, b"deeper/leaf"), Content::data(5, 4)));
                } else {
                    ents.push(Ent::file(&tname, Content::data(300, 5)));
                }
                // c0 -> c1 -> ... -> c(len-1) -> target
                for k in 0..*len {
                    let name = p(&format!("c{}", k));
                    let next = if k + 1 == *len { format!("x{}_target", i) } else { format!("x{}_c{}", i, k + 1) };
                    ents.push(Ent::link(&name, next.as_bytes()));
                }
            }
            Extra::Cycle2 => {
                if c.clean {
                    continue;
                }
                ents.push(Ent::link(&p("cyA"), format!("x{}_cyB", i).as_bytes()));
                ents.push(Ent::link(&p("cyB"), format!("x{}_cyA", i).as_bytes()));
            }
            Extra::UpLink => {
                if c.clean {
                    continue;
                }
                ents.push(Ent::link(&p("up"), b"."));
            }
            Extra::SelfLoop => {
                if c.clean {
                    continue;
                }
                ents.push(Ent::link(&p("self"), format!("x{}_self", i).as_bytes()));
            }
            Extra::OutDir(abs) => {
                let t = if *abs { join(root, b"by/sub") } else { b"../by/sub".to_vec() };
                ents.push(Ent::link(&p("out"), &t));
            }
            Extra::CrossDirChain(to_dir) => {
                let sub = p("xsub");
                ents.push(Ent::dir(&sub));
                let fin = format!("x{}_final", i);
                if *to_dir {
                    ents.push(Ent::dir(&join(&sub, fin.as_bytes())));
                    ents.push(Ent::file(&join(&join(&sub, fin.as_bytes()), b"in_sub"), Content::data(31, 8)));
                    ents.push(Ent::dir(&p("final")));
                    ents.push(Ent::file(&join(&p("final"), b"decoy"), Content::data(32, 9)));
                } else {
                    ents.push(Ent::file(&join(&sub, fin.as_bytes()), Content::data(41, 8)));
                    ents.push(Ent::file(&p("final"), Content::data(42, 9)));
                }
                ents.push(Ent::link(&join(&sub, b"hop"), fin.as_bytes()));
                ents.push(Ent::link(&p("start"), format!("x{}_xsub/hop", i).as_bytes()));
            }
            Extra::Deep(depth, via_link) => {
                // the deep tree lives outside the source when reached through a link, inside otherwise
                let mut pth = if *via_link { format!("by/deep{}", i).into_bytes() } else { p("deep") };
                ents.push(Ent::dir(&pth));
                for _ in 0..*depth {
                    pth.extend_from_slice(b"/n");
                    ents.push(Ent::dir(&pth));
                }
                ents.push(Ent::file(&[pth.as_slice(), b"/bottom"].concat(), Content::data(9, 4)));
                if *via_link {
                    ents.push(Ent::link(&p("to_deep"), format!("../by/deep{}", i).as_bytes()));
                }
            }
            Extra::DirWithLinks => {
                let d = p("ldir");
                ents.push(Ent::dir(&d));
                ents.push(Ent::file(&join(&d, b"plain"), Content::data(17, 6)));
                ents.push(Ent::link(&join(&d, b"to_keep"), b"../../by/keep"));
                ents.push(Ent::link(&join(&d, b"to_plain"), b"plain"));
                ents.push(Ent::link(&p("to_ldir"), format!("x{}_ldir", i).as_bytes()));
            }
        }
    }
    if c.dest_exists {
        ents.push(Ent::dir(b"d"));
    }
    let mut inv = Inv::default();
    apply_common(&mut inv, c.flags);
    inv.recursive = true;
    inv.deref = true;
    inv.dest = b"d".to_vec();
    inv.gitignore = c.opts & 1 != 0;
    if c.top_link {
        ents.push(Ent::link(b"stop", b"s"));
        inv.sources = vec![b"stop".to_vec()];
    } else {
        inv.sources = vec![b"s".to_vec()];
    }
    // (the glob crate never matches names that are not UTF-8: not this property's business)
    let utf8_children = ents.iter().all(|e| !(e.path.starts_with(b"s/") && !e.path[2..].contains(&b'/')) || std::str::from_utf8(&e.path).is_ok());
    if c.opts & 2 != 0 && !c.top_link && utf8_children {
        inv.glob = true;
        inv.sources = vec![b"s/*".to_vec()];
    }
    (ents, inv)
}

pub fn judge(c: &Case, rec: &mut Rec) -> Verdict {
    let sb = match Sandbox::new() {
        Ok(s) => s,
        Err(e) => return Verdict::Inconclusive(format!("sandbox: {e}")),
    };
    let root = sb.rootb();
    let (ents, inv) = build(c, &root);
    if let Err(e) = materialise(&sb.root, &ents) {
        return Verdict::Inconclusive(format!("materialise: {e}"));
    }
    let pre = match snapshot(&sb.root) {
        Ok(s) => s,
        Err(e) => return Verdict::Inconclusive(format!("snapshot: {e}")),
    };
    let plan = model::plan(&pre, &root, &inv);
    let updater = ["", "record", "channel", "noop"][c.via_lib as usize % 4];
    let out = if updater.is_empty() {
        run_plain(&RunSpec::xcp(inv.argv(), &sb.root, &sb.out))
    } else {
        let cfg = json!({"driver": inv.driver(), "sources": inv.sources.iter().map(|s| String::from_utf8_lossy(s).to_string()).collect::<Vec<_>>(), "dest": "d", "workers": c.flags.1, "block_size": c.flags.2.unwrap_or(1 << 20),
            "updater": updater, "dereference": true, "drain_timeout_ms": 15000});
        let mut spec = RunSpec::xcp(vec![b"copy".to_vec()], &sb.root, &sb.out);
        spec.bin = std::path::PathBuf::from(PROBE_BIN);
        spec.stdin_data = Some(serde_json::to_vec(&cfg).unwrap());
        spec.timeout = std::time::Duration::from_secs(150);
        run_plain(&spec)
    };
    rec.eval(1);
    if out.timed_out {
        return Verdict::Inconclusive("watchdog".into());
    }
    // the verdict of the run: exit status of xcp, or what copy() returned to the library client
    let run_ok = if updater.is_empty() {
        out.ok()
    } else {
        let first = out.stdout.split(|b| *b == b'\n').next().unwrap_or(b"");
        match serde_json::from_slice::<Value>(first) {
            Ok(v) => match (v.get("ok").and_then(|x| x.as_bool()), v.get("returned").and_then(|x| x.as_bool())) {
                (Some(ok), Some(true)) => ok,
                _ => return Verdict::Inconclusive(format!("probe: {}", String::from_utf8_lossy(first).chars().take(200).collect::<String>())),
            },
            Err(e) => return Verdict::Inconclusive(format!("probe output: {e}")),
        }
    };
    if !updater.is_empty() {
        rec.class(format!("library|{}|{}|plan={}|ok={}", updater, inv.driver(), match &plan { Plan::MustFail(_) => "mustfail", Plan::Copy(_) => "copy", _ => "other" }, run_ok));
    }
    let post = match snapshot(&sb.root) {
        Ok(s) => s,
        Err(e) => return Verdict::Inconclusive(format!("snapshot: {e}")),
    };
    let driver = inv.driver();
    // classification
    let n_dirlinks = pre.iter().filter(|(p, m)| p.starts_with(b"s/") && m.kind == K::L && model::is_dir_following(&pre, &root, p)).count();
    let maxchain = c.extras.iter().map(|x| if let Extra::Chain(l, _) = x { if c.clean && *l > 40 { 0 } else { *l } } else { 0 }).max().unwrap_or(0);
    let chain_class = match maxchain {
        0 => "nochain",
        1 => "chain1",
        2..=39 => "chain2-39",
        40 => "chain40",
        _ => "chain41+",
    };
    if let Some(Extra::Deep(d, l)) = c.extras.iter().find(|x| matches!(x, Extra::Deep(..))) {
        rec.class(format!("deep={}|via_link={}", d, l));
    }
    if c.extras.iter().any(|x| matches!(x, Extra::CrossDirChain(_))) {
        rec.class("cross-directory-relative-chain");
    }
    if c.opts != 0 {
        rec.class(format!("opts|gitignore={}|glob-children={}|plan={}", c.opts & 1 != 0, inv.glob, match &plan { Plan::MustFail(_) => "mustfail", Plan::Copy(_) => "copy", _ => "other" }));
    }
    let leaves = c.extras.iter().any(|x| matches!(x, Extra::OutDir(_))) || pre.iter().any(|(p, m)| p.starts_with(b"s/") && m.link.as_deref().map(|l| l.contains("by/")).unwrap_or(false));
    match &plan {
        Plan::MustFail(why) => {
            let k = why.split(' ').next().unwrap_or("").to_string();
            rec.class(format!("mustfail|{}|{}|exit={}", k, driver, if run_ok { "0" } else { "!0" }));
            rec.nontrivial(case_hash(c));
            if run_ok {
                return Verdict::faild(
                    format!("C13|{}|bad-link-skipped|{}", driver, k),
                    format!("-L with an unresolvable link ({}) but exit 0", why),
                    json!({"argv": inv.argv_s(), "why": why}),
                );
            }
            Verdict::Pass
        }
        Plan::Copy(mapped) => {
            let key = format!("copy|{}|dirlinks={}|{}|{}|top_link={}|exit={}", driver, std::cmp::min(n_dirlinks, 3), chain_class, if leaves { "leaves-source" } else { "inside" }, c.top_link, if run_ok { "0" } else { "!0" });
            let new = rec.class(key);
            if !run_ok {
                rec.count("exit_nonzero", 1);
                return Verdict::Pass;
            }
            if n_dirlinks > 0 || maxchain >= 2 || leaves {
                rec.nontrivial(case_hash(c));
            }
            if new {
                rec.sample(json!({"argv": inv.argv_s(), "links_to_dirs": n_dirlinks, "max_chain": maxchain, "mapped": mapped.len(),
                    "links": pre.iter().filter(|(p, m)| p.starts_with(b"s") && m.kind == K::L).take(6).map(|(p, m)| format!("{} -> {}", esc(p), m.link.clone().unwrap_or_default())).collect::<Vec<_>>()}));
            }
            // no symbolic link anywhere below the destination
            for m in mapped {
                if let Some(pm) = post.get(&m.dst) {
                    if pm.kind == K::L {
                        return Verdict::faild(format!("C13|{}|link-left", driver), format!("-L but {} is a symbolic link", esc(&m.dst)), json!({"argv": inv.argv_s()}));
                    }
                }
            }
            let diffs = model::compare_success(&pre, &post, mapped, &model::CmpOpts::default());
            if diffs.is_empty() {
                return Verdict::Pass;
            }
            // which source entry is involved in the first difference: a child reached through a directory link?
            let through_dirlink = diffs[0].starts_with("missing") && mapped.iter().any(|m| diffs[0].contains(&format!(" {} ", esc(&m.dst))) && !m.top);
            let cat = diffs[0].split(':').next().unwrap_or("other").to_string();
            Verdict::faild(
                format!("C13|{}|{}{}", driver, cat, if through_dirlink { "|below-directory-link" } else { "" }),
                format!("-L exit 0 but destination differs from the resolved tree: {}", diffs.iter().take(3).cloned().collect::<Vec<_>>().join("; ")),
                json!({"argv": inv.argv_s(), "diffs": diffs.iter().take(12).collect::<Vec<_>>()}),
            )
        }
        Plan::Reject(w) | Plan::Unmodelled(w) => {
            rec.class(format!("other|{}", w));
            rec.count("unmodelled", 1);
            Verdict::Pass
        }
    }
}

// ------------------------------------------------------------------ links whose resolved absolute path exceeds PATH_MAX

#[derive(Clone, Debug, Serialize, Deserialize)]
pub struct LongCase {
    /// nested directories of 250 bytes each between the link and its target
    pub levels: u8,
    /// length of one more directory name above the working directory: shifts the absolute path across PATH_MAX
    pub pad: u16,
    pub flags: (bool, u8, Option<u64>),
    pub payload: u32,
}

pub fn long_strategy() -> BoxedStrategy<LongCase> {
    (prop_oneof![1 => Just(14u8), 2 => Just(15u8), 4 => Just(16u8)], prop_oneof![Just(1u16), Just(20u16), Just(30u16), Just(40u16), Just(100u16), Just(250u16)], common_flags(), prop_oneof![Just(0u32), 1u32..5000, Just(70000u32)])
        .prop_map(|(levels, pad, flags, payload)| LongCase { levels, pad, flags, payload })
        .boxed()
}

struct RmRf(std::path::PathBuf);
impl Drop for RmRf {
    fn drop(&mut self) {
        // rm walks with openat(); the harness' own cleanup uses absolute paths and would stop at PATH_MAX
        let _ = std::process::Command::new("rm").arg("-rf").arg("P").current_dir(&self.0).status();
    }
}

pub fn judge_long(c: &LongCase, rec: &mut Rec) -> Verdict {
    let sb = match Sandbox::new() {
        Ok(s) => s,
        Err(e) => return Verdict::Inconclusive(format!("sandbox: {e}")),
    };
    let _guard = RmRf(sb.root.clone());
    let pad = "p".repeat(c.pad as usize);
    let script = format!(
        "set -e; B=P/{pad}/base; mkdir -p $B/src $B/dest; cd $B; SEG=$(printf '%0250d' 0); REL=deep; i=0; while [ $i -lt {lv} ]; do REL=$REL/$SEG; i=$((i+1)); done; mkdir -p $REL; yes 'xv long path payload' | head -c {n} > $REL/file.txt; echo plain > src/plain.txt; ln -s ../$REL/file.txt src/far.lnk; ln -s plain.txt src/near.lnk; cp $REL/file.txt twin",
        pad = pad,
        lv = c.levels,
        n = c.payload
    );
    let st = std::process::Command::new("sh").arg("-c").arg(&script).current_dir(&sb.root).status();
    if !st.map(|s| s.success()).unwrap_or(false) {
        return Verdict::Inconclusive("building the deep tree failed (filesystem refuses the long link target?)".into());
    }
    let base = sb.root.join("P").join(&pad).join("base");
    let abs_len = pbytes(&base).len() + 1 + 4 + c.levels as usize * 251 + 9;
    let mut inv = Inv::default();
    apply_common(&mut inv, c.flags);
    inv.recursive = true;
    inv.deref = true;
    inv.sources = vec![b"src".to_vec()];
    inv.dest = b"dest".to_vec();
    let out = run_plain(&RunSpec::xcp(inv.argv(), &base, &sb.out));
    rec.eval(1);
    if out.timed_out {
        return Verdict::Inconclusive("watchdog".into());
    }
    let driver = inv.driver();
    let over = abs_len > 4096;
    let new = rec.class(format!("longpath|{}|resolved-path-{}-PATH_MAX|exit={}", driver, if over { "over" } else { "under" }, if out.ok() { "0" } else { "!0" }));
    rec.nontrivial(case_hash(c));
    if new {
        rec.sample(json!({"argv": inv.argv_s(), "resolved_absolute_path_bytes": abs_len, "link_target_bytes": 3 + 4 + c.levels as usize * 251 + 9, "exit": out.code, "stderr": out.stderr_s().lines().last().unwrap_or("").chars().take(160).collect::<String>()}));
    }
    if !out.ok() {
        if !over {
            return Verdict::faild(format!("C13|{}|longpath|resolvable-link-fails", driver), format!("every path is below PATH_MAX ({} bytes) but the run failed: {}", abs_len, out.stderr_s().lines().last().unwrap_or("")), json!({"argv": inv.argv_s()}));
        }
        return Verdict::Pass; // "or fails"
    }
    let post = match snapshot(&base.join("dest")) {
        Ok(s) => s,
        Err(e) => return Verdict::Inconclusive(format!("snapshot: {e}")),
    };
    if let Some((p, _)) = post.iter().find(|(_, m)| m.kind == K::L) {
        return Verdict::faild(format!("C13|{}|link-left|longpath", driver), format!("-L exit 0 but dest/{} is a symbolic link (its target resolves to a path of {} bytes)", esc(p), abs_len), json!({"argv": inv.argv_s(), "stderr": out.stderr_s()}));
    }
    let want_far = hash_file(&base.join("twin")).ok();
    let want_near = hash_file(&base.join("src/plain.txt")).ok();
    for (name, want) in [(b"src/far.lnk".as_slice(), want_far), (b"src/near.lnk".as_slice(), want_near)] {
        match post.get(name) {
            Some(m) if m.kind == K::F && m.hash == want => {}
            other => {
                return Verdict::faild(format!("C13|{}|content|longpath", driver), format!("-L exit 0 but dest/{} is {:?}, expected a regular file with the target's bytes", esc(name), other.map(|m| (m.kind, m.size))), json!({"argv": inv.argv_s()}))
            }
        }
    }
    Verdict::Pass
}

impl Check for C13 {
    fn id(&self) -> &'static str {
        "C13"
    }
    fn rule(&self) -> String {
        "proptest-generated source trees with symlinks to files, to directories with nested content, chains of 1,2,3,10,39,40 and 41 links (41 exceeds the kernel limit), relative and absolute targets, targets outside the source, dangling links, 2-cycles, self loops, links to an ancestor directory, directories reached through a link that themselves contain links, relative chains crossing directories with a same-named decoy, chains of 40/150/300 nested directories inside the source or behind a link; optionally the source argument itself is a link; both drivers, copied with -r -L by the xcp binary or (one case in six) by a libxcp client with the record / channel / noop updater, for which 'exits non-zero' means copy() returns an error; optionally plus --gitignore (no ignore file anywhere) and/or with the sources given as the pattern 's/*' under --glob (every child of s, dangling links included, is then a source of its own; only when all those names are UTF-8). Sub-check 'long': a link whose target resolves to an absolute path just below or above PATH_MAX (14-16 nested 250-byte directories below a base directory padded by 1-250 bytes; everything reachable through relative paths): the run may fail when the path cannot be resolved, must succeed when every path is below PATH_MAX, and exit 0 => no symlink in the destination and the link replaced by a regular file with the target's bytes. Oracle: if any link below the source cannot be resolved (dangling, cyclic, too long) => exit != 0; otherwise exit 0 => no symlink in the destination and the destination equals the model obtained by resolving every path (a link to a directory becomes a directory with the target's full contents), everything else untouched. Non-trivial: >=1 link to a directory, chain >= 2, or a link leaving the source, or a must-fail case; distinct by case hash.".into()
    }
    fn needs(&self) -> Needs {
        Needs { xcp: true, probe: true, fallback: false }
    }
    fn run_shard(&self, ctx: &Ctx, rec: &mut Rec) {
        let total = match ctx.tier {
            Tier::Quick => 5000,
            Tier::Thorough => 120000,
        };
        prop_loop(ctx, rec, "gen", strategy(), ctx.share(total), judge);
        prop_loop(ctx, rec, "long", long_strategy(), ctx.share(total / 25), judge_long);
    }
    fn replay(&self, _ctx: &Ctx, sub: &str, case: &Value) -> Verdict {
        if sub == "long" {
            return match serde_json::from_value::<LongCase>(case.clone()) {
                Ok(c) => judge_long(&c, &mut Rec::default()),
                Err(e) => Verdict::Inconclusive(format!("bad case: {e}")),
            };
        }
        match serde_json::from_value::<Case>(case.clone()) {
            Ok(c) => judge(&c, &mut Rec::default()),
            Err(e) => Verdict::Inconclusive(format!("bad case: {e}")),
        }
    }
    fn min_nontrivial(&self, tier: Tier) -> usize {
        match tier {
            Tier::Quick => 500,
            Tier::Thorough => 5000,
        }
    }
    fn required_classes(&self, _tier: Tier) -> Vec<String> {
        ["mustfail|dangling", "mustfail|link", "mustfail|directory", "chain40", "dirlinks=1", "leaves-source", "top_link=true", "cross-directory-relative-chain", "deep=150|via_link=true", "deep=300|", "opts|gitignore=true|glob-children=false|plan=copy", "opts|gitignore=false|glob-children=true|plan=mustfail", "opts|gitignore=false|glob-children=true|plan=copy", "resolved-path-over-PATH_MAX", "resolved-path-under-PATH_MAX|exit=0", "library|noop|parfile|plan=mustfail", "library|noop|parblock|plan=mustfail", "library|channel|", "library|record|"].iter().map(|s| s.to_string()).collect()
    }
}
