//! C12 — progress updates are truthful, never exceed 100%, and the stream ends.

use super::c02::{self, DestSpec, GlobMode, MutKind, SrcKind, SrcSpec};
use super::c06::{run_cfg, sched_of, RunCfg};
use super::tree::*;
use super::{Check, Needs};
use crate::engine::*;
use crate::model::{self, Plan};
use crate::run::*;
use crate::sandbox::*;
use crate::sup::*;
use crate::util::*;
use proptest::prelude::*;
use serde::{Deserialize, Serialize};
use serde_json::{json, Value};
use std::path::PathBuf;

pub struct C12;

#[derive(Clone, Debug, Serialize, Deserialize)]
pub struct Case {
    pub base: c02::Case,
    /// 0 client-supplied recording updater, 1 ChannelUpdater, 2 NoopUpdater
    pub updater: u8,
    pub parblock: bool,
    pub workers: u8,
    /// block size given to Config (u64::MAX = library default)
    pub block: u64,
    /// run under the supervisor with this schedule
    pub sup: Option<RunCfg>,
    /// 0 none, 1 copy_file_range EIO, 2 write-open ENOSPC, 3 ftruncate EIO, 4 mkdir EACCES, 5 short copy_file_range
    pub fault: u8,
    pub fault_k: u8,
    /// sparse files added to the first source: (hole length in 4 KiB blocks, data length) - the last extent
    /// then usually extends past an unaligned EOF
    #[serde(default)]
    pub sparse: Vec<(u16, u16)>,
    /// library options: bit0 no_clobber, bit1 fsync, bit2 no_perms, bit3 no_timestamps, bits4-5 backup (1 numbered, 2 auto)
    #[serde(default)]
    pub lib_opts: u8,
}

fn base_strategy() -> BoxedStrategy<c02::Case> {
    let src = (0..TOP_SAFE as u8, prop::collection::vec(gent(TOP_SAFE, true), 1..16)).prop_map(|(name, g)| SrcSpec { name, kind: SrcKind::Tree(g), spell: Spell::Plain });
    let mk = prop_oneof![2 => Just(MutKind::Differ), 1 => Just(MutKind::Same), 1 => Just(MutKind::FileInstead), 1 => Just(MutKind::DirInstead)];
    let dest = prop_oneof![
        2 => Just(DestSpec::Absent),
        4 => Just(DestSpec::EmptyDir),
        2 => (prop::collection::vec((any::<u16>(), mk), 1..5), 0u8..2).prop_map(|(m, x)| DestSpec::Populated(m, x)),
    ];
    (prop::collection::vec(src, 1..3), dest, prop::bool::weighted(0.5))
        .prop_map(|(srcs, dest, nolinks)| c02::Case { srcs, dest, dest_spell: Spell::Plain, flags: (false, 4, None), no_target_dir: false, target_dir_opt: false, glob: GlobMode::Off, nolinks, extra: 0, dest_via_link: false, dup_basename: false })
        .boxed()
}

pub fn strategy() -> BoxedStrategy<Case> {
    (
        base_strategy(),
        prop_oneof![5 => Just(0u8), 4 => Just(1u8), 1 => Just(2u8)],
        any::<bool>(),
        prop_oneof![3 => Just(1u8), 3 => Just(2), 3 => Just(4), 2 => Just(8), 2 => Just(16), 1 => Just(0u8)],
        prop_oneof![8 => Just(u64::MAX), 8 => Just(1024u64), 8 => Just(4096u64), 4 => Just(65536u64), 4 => Just(100u64), 1 => Just(0u64)],
        prop::option::weighted(0.3, run_cfg()),
        prop_oneof![6 => Just(0u8), 1 => Just(1u8), 1 => Just(2u8), 1 => Just(3u8), 1 => Just(4u8), 1 => Just(5u8)],
        0u8..6,
        prop::collection::vec((1u16..400, 1u16..9000), 0..3),
        prop_oneof![3 => Just(0u8), 1 => Just(1u8), 2 => 0u8..48],
    )
        .prop_map(|(base, updater, parblock, workers, block, sup, fault, fault_k, sparse, lib_opts)| Case { base, updater, parblock, workers, block, sup, fault, fault_k, sparse, lib_opts })
        .boxed()
}

fn rules_for(c: &Case) -> Vec<Rule> {
    let k = Nth::Kth(c.fault_k as usize);
    match c.fault {
        1 => vec![Rule { sys: vec![Sys::CopyFileRange], path: PathSel::Sandbox, nth: k, action: Action::Errno(libc::EIO) }],
        2 => vec![Rule { sys: vec![Sys::Ftruncate], path: PathSel::Sandbox, nth: k, action: Action::Errno(libc::ENOSPC) }],
        3 => vec![Rule { sys: vec![Sys::Ftruncate], path: PathSel::Sandbox, nth: k, action: Action::Errno(libc::EIO) }],
        4 => vec![Rule { sys: vec![Sys::Mkdir], path: PathSel::Sandbox, nth: k, action: Action::Errno(libc::EACCES) }],
        5 => vec![Rule { sys: vec![Sys::CopyFileRange], path: PathSel::Sandbox, nth: Nth::Prob(c.fault_k as u64, 500), action: Action::ClampMinus1 }],
        _ => vec![],
    }
}

pub fn judge(c: &Case, rec: &mut Rec) -> Verdict {
    let sb = match Sandbox::new() {
        Ok(s) => s,
        Err(e) => return Verdict::Inconclusive(format!("sandbox: {e}")),
    };
    let root = sb.rootb();
    let mut b = c02::build(&c.base, &root);
    if let Some(first_src) = b.inv.sources.first().cloned() {
        for (i, (hb, dl)) in c.sparse.iter().enumerate() {
            let p = join(&first_src, format!("sparse_{}", i).as_bytes());
            b.ents.push(crate::spec::Ent::file(&p, crate::spec::Content { segs: vec![crate::spec::Seg::Hole(*hb as u64 * 4096), crate::spec::Seg::Data(*dl as u64, 7)], sync: i % 2 == 0 }));
        }
    }
    if let Err(e) = materialise(&sb.root, &b.ents) {
        return Verdict::Inconclusive(format!("materialise: {e}"));
    }
    let pre = match snapshot(&sb.root) {
        Ok(s) => s,
        Err(e) => return Verdict::Inconclusive(format!("snapshot: {e}")),
    };
    let mut inv = b.inv.clone();
    inv.recursive = true;
    let mapped = match model::plan(&pre, &root, &inv) {
        Plan::Copy(m) => m,
        _ => return Verdict::Pass,
    };
    let total_len: u64 = mapped.iter().filter(|m| m.kind == K::F).map(|m| pre[&m.src].size).sum();
    let updater = ["record", "channel", "noop"][c.updater as usize % 3];
    let supervised = c.sup.is_some();
    let marker = sb.out.join("xv-marker");
    let backup_name = ["", "numbered", "auto", ""][(c.lib_opts >> 4) as usize & 3];
    let cfg = json!({
        "driver": if c.parblock { "parblock" } else { "parfile" },
        "sources": inv.sources.iter().map(|s| String::from_utf8_lossy(s).to_string()).collect::<Vec<_>>(),
        "dest": String::from_utf8_lossy(&inv.dest).to_string(),
        "workers": c.workers,
        "block_size": c.block,
        "updater": updater,
        "no_clobber": c.lib_opts & 1 != 0,
        "fsync": c.lib_opts & 2 != 0,
        "no_perms": c.lib_opts & 4 != 0,
        "no_timestamps": c.lib_opts & 8 != 0,
        "backup": backup_name,
        "marker": if supervised { Some(marker.display().to_string()) } else { None },
        "drain_timeout_ms": 15000,
    });
    let stdin = serde_json::to_vec(&cfg).unwrap();
    let (stdout, log, fired, timed_out): (Vec<u8>, Vec<Ev>, usize, bool) = if let Some(r) = &c.sup {
        let inp = sb.out.join("stdin.json");
        if std::fs::write(&inp, &stdin).is_err() {
            return Verdict::Inconclusive("stdin".into());
        }
        // the probe reads its config from stdin: wrap with sh to redirect
        let mut r = r.clone();
        r.parblock = c.parblock;
        let spec = SupSpec {
            bin: PathBuf::from("/bin/sh"),
            args: vec![b"-c".to_vec(), format!("exec {} copy < {}", PROBE_BIN, inp.display()).into_bytes()],
            cwd: sb.root.clone(),
            umask: 0o022,
            nofile: None,
            timeout: std::time::Duration::from_secs(150),
            out_dir: sb.out.clone(),
            root: sb.rootb(),
            extra_roots: vec![pbytes(&sb.out)],
            rules: rules_for(c),
            sched: sched_of(&r),
            log_all: false,
            extra_env: vec![("XV_DRIVER".into(), if c.parblock { "parblock".into() } else { "parfile".into() })],
            stdout_to: None,
        };
        let o = Sup::run(spec);
        if o.setup_error.is_some() {
            return Verdict::Inconclusive(format!("supervisor {:?}", o.setup_error));
        }
        let f = o.fired.iter().sum();
        (o.stdout.clone(), o.log, f, o.timed_out)
    } else {
        let mut spec = RunSpec::xcp(vec![b"copy".to_vec()], &sb.root, &sb.out);
        spec.bin = PathBuf::from(PROBE_BIN);
        spec.stdin_data = Some(stdin);
        spec.timeout = std::time::Duration::from_secs(150);
        let o = run_plain(&spec);
        (o.stdout, vec![], 0, o.timed_out)
    };
    rec.eval(1);
    let driver = if c.parblock { "parblock" } else { "parfile" };
    if timed_out {
        return Verdict::Inconclusive("probe watchdog".into());
    }
    let first_line = stdout.split(|b| *b == b'\n').next().unwrap_or(b"");
    let v: Value = match serde_json::from_slice(first_line) {
        Ok(v) => v,
        Err(e) => return Verdict::Inconclusive(format!("probe output: {e}: {}", String::from_utf8_lossy(&stdout).chars().take(200).collect::<String>())),
    };
    if let (Some(e), None) = (v.get("error").and_then(|x| x.as_str()), v.get("returned")) {
        // the library refused the configuration before any copy started (load_driver / Driver::new returned Err)
        rec.class(format!("configuration-refused|block={}|{}", c.block, if c.parblock { "parblock" } else { "parfile" }));
        let _ = e;
        return Verdict::Pass;
    }
    let ok = v.get("ok").and_then(|x| x.as_bool()).unwrap_or(false);
    let returned = v.get("returned").and_then(|x| x.as_bool()).unwrap_or(false);
    let closed = v.get("closed").and_then(|x| x.as_bool()).unwrap_or(false);
    let updates: Vec<(String, u64, u64)> = v
        .get("updates")
        .and_then(|u| u.as_array())
        .map(|a| a.iter().map(|u| (u.get("k").and_then(|k| k.as_str()).unwrap_or("").to_string(), u.get("v").and_then(|x| x.as_u64()).unwrap_or(0), u.get("th").and_then(|x| x.as_u64()).unwrap_or(0))).collect())
        .unwrap_or_default();
    let has_error_update = updates.iter().any(|u| u.0 == "Error");
    let copied_threads: std::collections::BTreeSet<u64> = updates.iter().filter(|u| u.0 == "Copied").map(|u| u.2).collect();
    let ncopied = updates.iter().filter(|u| u.0 == "Copied").count();
    let bs = if c.block == u64::MAX { u64::MAX } else { c.block };
    let multi = mapped.iter().any(|m| m.kind == K::F && pre[&m.src].size > bs);
    let key = format!(
        "{}|{}|w{}|{}|{}|fault{}|{}|sparse={}|ok={}",
        driver,
        updater,
        c.workers,
        if multi { "multiblock" } else { "1block" },
        b.dest_state,
        if supervised { c.fault } else { 0 },
        if supervised { "supervised" } else { "plain" },
        !c.sparse.is_empty(),
        ok
    );
    let new = rec.class(key);
    if c.lib_opts & 1 != 0 {
        rec.class(format!("no_clobber|{}|{}|collision={}", driver, updater, mapped.iter().any(|m| m.kind != K::D && pre.contains_key(&m.dst))));
    }
    if (ncopied >= 2 && copied_threads.len() >= 2) || fired > 0 || !ok || has_error_update {
        rec.nontrivial(case_hash(c));
    }
    if new {
        rec.sample(json!({"config": cfg, "result_ok": ok, "updates_head": updates.iter().take(8).map(|u| format!("{}({}) t{}", u.0, u.1, u.2)).collect::<Vec<_>>(), "n_updates": updates.len(), "total_len": total_len}));
    }
    let det = json!({"config": cfg, "probe": {"ok": ok, "error": v.get("error"), "returned": returned, "closed": closed}, "updates_head": updates.iter().take(30).map(|u| format!("{}({}) t{}", u.0, u.1, u.2)).collect::<Vec<_>>(), "total_len": total_len, "fault": c.fault});
    // (4) the call returns and the stream ends
    if !returned {
        return Verdict::faild(format!("C12|{}|{}|copy-did-not-return", driver, updater), "copy() did not return within 15 s".to_string(), det);
    }
    if !closed {
        return Verdict::faild(format!("C12|{}|{}|stream-not-closed", driver, updater), "the update stream did not end after copy() returned (an updater clone is still alive)".to_string(), det);
    }
    // (1)+(2) announced sizes and prefix truthfulness
    if updater != "noop" {
        let mut size = 0u64;
        let mut copied = 0u64;
        for (i, u) in updates.iter().enumerate() {
            match u.0.as_str() {
                "Size" => size += u.1,
                "Copied" => copied += u.1,
                _ => {}
            }
            if copied > size {
                return Verdict::faild(format!("C12|{}|{}|copied-exceeds-announced", driver, updater), format!("after update #{} the stream reports {} bytes copied but only {} announced", i, copied, size), det);
            }
        }
        if size > total_len {
            return Verdict::faild(format!("C12|{}|{}|size-exceeds-total", driver, updater), format!("announced sizes sum to {} but the selected regular files total {}", size, total_len), det);
        }
        if ok && !has_error_update && size != total_len {
            return Verdict::faild(format!("C12|{}|{}|size-sum-wrong", driver, updater), format!("copy succeeded but announced sizes sum to {} instead of {}", size, total_len), det);
        }
        if copied > total_len {
            return Verdict::faild(format!("C12|{}|{}|copied-exceeds-total", driver, updater), format!("{} bytes reported copied, files total {}", copied, total_len), det);
        }
    }
    // (3) under the supervisor: at every marker, reported <= actually transferred so far
    if supervised && updater != "noop" {
        let mpath = pbytes(&marker);
        let mut evs: Vec<(u64, i64, u64)> = vec![]; // (stamp, kind: 0 data / 1 marker, amount)
        for e in &log {
            if e.sys == Sys::Write && e.path.as_deref() == Some(mpath.as_slice()) {
                if let Some(t) = &e.path2 {
                    let s = String::from_utf8_lossy(t);
                    let mut it = s.split_whitespace();
                    if it.next() == Some("Copied") {
                        if let Some(n) = it.next().and_then(|x| x.parse::<u64>().ok()) {
                            evs.push((e.t_in, 1, n));
                        }
                    }
                }
            } else if e.sys.is_data_write() && e.ok() && e.path.as_ref().map(|p| p.starts_with(&root)).unwrap_or(false) {
                evs.push((e.t_out, 0, e.ret as u64));
            }
        }
        evs.sort();
        let (mut moved, mut reported) = (0u64, 0u64);
        for (stamp, kind, n) in evs {
            if kind == 0 {
                moved += n;
            } else {
                reported += n;
                // the channel updater reports the increment that crossed a block boundary, never more than moved
                if reported > moved {
                    return Verdict::faild(format!("C12|{}|{}|reported-more-than-transferred", driver, updater), format!("at stamp {} the stream has reported {} bytes but the kernel had moved only {}", stamp, reported, moved), det);
                }
            }
        }
    }
    // (5) incomplete destination => an error was delivered or returned
    if ok && !has_error_update {
        let post = match snapshot(&sb.root) {
            Ok(s) => s,
            Err(e) => return Verdict::Inconclusive(format!("snapshot: {e}")),
        };
        let o = model::CmpOpts { allow_new: if (c.lib_opts >> 4) & 3 != 0 { Some(super::c04::is_backup_name) } else { None }, ..model::CmpOpts::default() };
        let diffs = model::compare_success(&pre, &post, &mapped, &o);
        if !diffs.is_empty() {
            return Verdict::faild(
                format!("C12|{}|{}|incomplete-without-error", driver, updater),
                format!("copy() returned Ok and no Error update was delivered, but: {}", diffs.iter().take(3).cloned().collect::<Vec<_>>().join("; ")),
                det,
            );
        }
    }
    Verdict::Pass
}

impl Check for C12 {
    fn id(&self) -> &'static str {
        "C12"
    }
    fn rule(&self) -> String {
        "a library-client probe linked against /repo/libxcp runs driver.copy() on a thread as the documented example does; proptest generates the tree (1-2 source trees of 1-15 entries, links, files up to 140 KB), destination absent/empty/pre-populated with natural obstacles (directory where a file must go, file where a directory or link must go, differing files), driver, workers 1-16, block size 100 B..64 KiB, the library default, or (one case in 33) 0, which the library must either refuse or survive, generated library options (no_clobber, fsync, no_perms, no_timestamps, backup), optional sparse files with an unaligned data tail, and the updater: a client-supplied recording StatusUpdater (mutex-ordered log), the provided ChannelUpdater drained by the documented receiver loop, or NoopUpdater. A fifth of the cases run under the ptrace supervisor with a generated schedule and optionally a fault (copy_file_range EIO, ftruncate ENOSPC/EIO, mkdir EACCES, short copy_file_range), the updater also writing one marker line per update so that the supervisor's log orders updates against data-copy calls. Oracle: sizes announced sum to the total length of the selected regular files when the copy succeeds (never more); at every prefix sum(Copied) <= sum(Size) and <= total; under the supervisor at every marker sum(Copied) <= bytes returned so far by successful data-copy calls; copy() returns and the stream ends (channel disconnects / no updater clone left); Ok without an Error update => destination complete by the reference model. Non-trivial: >=2 Copied updates from >=2 threads, or an obstacle/fault hit; distinct by case hash.".into()
    }
    fn needs(&self) -> Needs {
        Needs { xcp: false, probe: true, fallback: false }
    }
    fn run_shard(&self, ctx: &Ctx, rec: &mut Rec) {
        let total = match ctx.tier {
            Tier::Quick => 3600,
            Tier::Thorough => 180000,
        };
        prop_loop(ctx, rec, "gen", strategy(), ctx.share(total), judge);
    }
    fn replay(&self, ctx: &Ctx, _sub: &str, case: &Value) -> Verdict {
        match serde_json::from_value::<Case>(case.clone()) {
            Ok(c) => {
                let mut last = Verdict::Pass;
                for _ in 0..(if c.sup.is_some() { ctx.replay_attempts } else { 1 }) {
                    last = judge(&c, &mut Rec::default());
                    if matches!(last, Verdict::Fail(..)) {
                        return last;
                    }
                }
                last
            }
            Err(e) => Verdict::Inconclusive(format!("bad case: {e}")),
        }
    }
    fn min_nontrivial(&self, tier: Tier) -> usize {
        match tier {
            Tier::Quick => 500,
            Tier::Thorough => 5000,
        }
    }
    fn required_classes(&self, _tier: Tier) -> Vec<String> {
        ["|record|", "|channel|", "|noop|", "parblock|", "parfile|", "multiblock", "supervised", "fault1", "fault5", "ok=false", "supervised|sparse=true", "|w0|", "no_clobber|parfile|noop|collision=true", "no_clobber|parblock|record|collision=true"].iter().map(|s| s.to_string()).collect()
    }
}
