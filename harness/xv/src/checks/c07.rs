//! C07 — xcp always terminates: no deadlock, no spin, with or without errors.

use super::c04::errnos_for;
use super::c06::{run_cfg, sched_of, sup_spec, RunCfg};
use super::c12;
use super::tree::*;
use super::{Check, Needs};
use crate::engine::*;
use crate::model::Inv;
use crate::sandbox::*;
use crate::spec::*;
use crate::sup::*;
use crate::util::*;
use proptest::prelude::*;
use serde::{Deserialize, Serialize};
use serde_json::{json, Value};
use std::collections::BTreeMap;

pub struct C07;

#[derive(Clone, Debug, Serialize, Deserialize)]
pub struct Case {
    pub tree: Vec<GEnt>,
    /// special files inside the tree: (parent index, 0 fifo / 1 socket)
    pub specials: Vec<(u16, u8)>,
    /// 0 tree source, 1 a FIFO as the sole source, 2 a socket as the sole source, 3 empty directory, 4 empty file
    pub shape: u8,
    pub run: RunCfg,
    /// fault: (point index, errno choice); None = no fault
    pub fault: Option<(u16, u8)>,
    pub block: Option<u64>,
    /// big tree: (number of small files, a directory already sits where the first FIFO must go)
    #[serde(default)]
    pub big: Option<(u16, bool)>,
    /// pass --gitignore; 1: the source root's .gitignore is a FIFO, 2: a socket, 3: a regular file, 0: no flag
    #[serde(default)]
    pub gitignore: u8,
}

pub fn strategy() -> BoxedStrategy<Case> {
    (
        prop::collection::vec(gent(TOP_SAFE, true), 0..24),
        prop::collection::vec((any::<u16>(), 0u8..2), 0..3),
        prop_oneof![8 => Just(0u8), 1 => Just(1u8), 1 => Just(2u8), 1 => Just(3u8), 1 => Just(4u8)],
        run_cfg(),
        prop::option::weighted(0.7, (any::<u16>(), any::<u8>())),
        prop_oneof![4 => Just(None), 4 => Just(Some(1024u64)), 2 => Just(Some(4096u64)), 1 => Just(Some(0u64))],
    )
        .prop_map(|(tree, specials, shape, mut run, fault, block)| {
            // workers in {1,2,64} get extra weight
            if run.seed % 3 == 0 {
                run.workers = [1u8, 2, 64][(run.seed / 3 % 3) as usize];
            }
            let gitignore = if run.seed % 11 == 0 { 1 + (run.seed / 11 % 3) as u8 } else { 0 };
            Case { tree, specials, shape, run, fault, block, big: None, gitignore }
        })
        .boxed()
}

/// many operations behind a failing one: bounded queues must not dead-lock when their consumers are gone
pub fn big_strategy() -> BoxedStrategy<Case> {
    (strategy(), prop_oneof![Just(200u16), Just(400u16), Just(700u16)], prop::bool::weighted(0.5), prop_oneof![3 => Just(1u8), 2 => Just(2u8), 1 => Just(4u8)])
        .prop_map(|(mut c, n, obstacle, w)| {
            c.shape = 0;
            c.tree.truncate(4);
            if c.specials.is_empty() {
                c.specials.push((0, 0));
            }
            c.run.workers = w;
            c.run.stall = None;
            c.big = Some((n, obstacle));
            c
        })
        .boxed()
}

pub fn build(c: &Case, root: &[u8]) -> (Vec<Ent>, Inv, Vec<Vec<u8>>) {
    let mut ents = bystanders();
    ents.push(Ent::dir(b"d"));
    let mut specials: Vec<Vec<u8>> = vec![];
    let mut inv = Inv::default();
    inv.parblock = c.run.parblock;
    inv.workers = c.run.workers;
    inv.block = c.block;
    inv.recursive = true;
    inv.dest = b"d".to_vec();
    match c.shape {
        1 => {
            ents.push(Ent::new(b"s", Kind::Fifo));
            specials.push(b"s".to_vec());
        }
        2 => {
            ents.push(Ent::new(b"s", Kind::Sock));
            specials.push(b"s".to_vec());
        }
        3 => ents.push(Ent::dir(b"s")),
        4 => ents.push(Ent::file(b"s", Content::default())),
        _ => {
            let t = build_tree(b"s", &c.tree, root, 3);
            let dirs: Vec<Vec<u8>> = t.iter().filter(|e| matches!(e.kind, Kind::Dir)).map(|e| e.path.clone()).collect();
            ents.extend(t);
            for (i, (pi, k)) in c.specials.iter().enumerate() {
                let d = &dirs[monotonic_index(*pi, dirs.len())];
                let p = join(d, format!("special_{}", i).as_bytes());
                ents.push(Ent::new(&p, if *k == 0 { Kind::Fifo } else { Kind::Sock }));
                if i == 0 {
                    if let Some((_, true)) = c.big {
                        // natural obstacle: a directory where the special file must go (its removal fails)
                        ents.push(Ent::dir(&join(b"d", &p)));
                    }
                }
                specials.push(p);
            }
            if let Some((n, _)) = c.big {
                for d in 0..3 {
                    ents.push(Ent::dir(format!("s/big{}", d).as_bytes()));
                }
                for i in 0..n {
                    ents.push(Ent::file(format!("s/big{}/f{}", i % 3, i).as_bytes(), Content::data((i % 40) as u64, (i % 200) as u8)));
                }
            }
        }
    }
    // a FIFO left in the destination (by an earlier copy of an older tree) exactly where a regular file must go now
    if c.shape == 0 && c.big.is_none() && c.run.seed % 13 == 1 {
        if let Some(f) = ents.iter().find(|e| matches!(e.kind, Kind::File(_)) && e.path.starts_with(b"s/")).map(|e| e.path.clone()) {
            let mut p = b"d".to_vec();
            for comp in f.split(|c| *c == b'/') {
                let parent_done = p.clone();
                if !ents.iter().any(|e| e.path == parent_done) {
                    ents.push(Ent::dir(&parent_done));
                }
                p = join(&p, comp);
            }
            ents.push(Ent::new(&p, Kind::Fifo));
        }
    }
    if c.gitignore > 0 && c.shape == 0 {
        inv.gitignore = true;
        match c.gitignore {
            1 => {
                ents.push(Ent::new(b"s/.gitignore", Kind::Fifo));
                specials.push(b"s/.gitignore".to_vec());
            }
            2 => {
                ents.push(Ent::new(b"s/.gitignore", Kind::Sock));
                specials.push(b"s/.gitignore".to_vec());
            }
            _ => ents.push(Ent::file(b"s/.gitignore", Content::data(0, 0))),
        }
    }
    inv.sources = vec![b"s".to_vec()];
    (ents, inv, specials)
}

/// the supervisor's view at the timeout: deadlock (every live thread inside a blocking call, none held
/// back by the scheduler) or spin (far more calls than the fault-free run)
fn classify_hang(o: &SupOut, baseline_calls: u64) -> Option<String> {
    if o.hang_threads.is_empty() {
        return None;
    }
    let held = o.hang_threads.iter().any(|(_, st, _)| st == "Held" || st == "Yielded");
    let all_blocked = o.hang_threads.iter().all(|(_, st, sys)| st == "Blocked" && sys.is_some());
    if all_blocked && !held {
        return Some(format!("deadlock: every live thread is inside a blocking call: {:?}", o.hang_threads));
    }
    if o.total_calls > 100 * std::cmp::max(baseline_calls, 50) {
        return Some(format!("spin: {} system calls against {} in the fault-free run", o.total_calls, baseline_calls));
    }
    // the same few calls over and over (also when the fault-free run itself never ends and gives no baseline)
    if o.total_calls >= 20_000 && o.log.len() >= 2000 {
        let tail = &o.log[o.log.len() - 2000..];
        let distinct: std::collections::BTreeSet<(usize, Sys, Option<&[u8]>)> = tail.iter().map(|e| (e.th, e.sys, e.path.as_deref())).collect();
        if distinct.len() <= 8 {
            return Some(format!("spin: {} system calls, the last 2000 recorded ones are only {} distinct (thread, call, path) combinations, e.g. {}", o.total_calls, distinct.len(), tail[tail.len() - 1].short()));
        }
    }
    // burning CPU without entering the kernel: nobody is held by the scheduler, yet most of the limit was spent computing
    if !held && o.hang_cpu_ms >= 12_000 {
        return Some(format!("spin: {} ms of CPU time consumed when the limit hit, {} system calls in total: {:?}", o.hang_cpu_ms, o.total_calls, o.hang_threads));
    }
    None
}

pub fn judge(c: &Case, rec: &mut Rec) -> Verdict {
    let mk = |c: &Case| -> Result<(Sandbox, Inv, Vec<Vec<u8>>), String> {
        let sb = Sandbox::new().map_err(|e| format!("sandbox: {e}"))?;
        let (ents, inv, specials) = build(c, &sb.rootb());
        materialise(&sb.root, &ents).map_err(|e| format!("materialise: {e}"))?;
        Ok((sb, inv, specials))
    };
    // ---- recording run (free schedule, no fault): baseline and fault points
    let (sb1, inv1, specials1) = match mk(c) {
        Ok(x) => x,
        Err(e) => return Verdict::Inconclusive(e),
    };
    let root1 = sb1.rootb();
    let mut spec = sup_spec(&sb1, inv1.argv(), vec![], Sched::free());
    spec.timeout = std::time::Duration::from_secs(20);
    let base = Sup::run(spec);
    rec.eval(1);
    if base.setup_error.is_some() {
        return Verdict::Inconclusive(format!("supervisor {:?}", base.setup_error));
    }
    let driver = inv1.driver();
    let never_opened = |o: &SupOut, root: &[u8], specials: &[Vec<u8>]| -> Option<String> {
        for sp in specials {
            let abs = join(root, sp);
            if let Some(e) = o.log.iter().find(|e| e.sys == Sys::Open && e.path.as_deref() == Some(abs.as_slice())) {
                return Some(e.short());
            }
        }
        None
    };
    if let Some(e) = never_opened(&base, &root1, &specials1) {
        return Verdict::faild(format!("C07|{}|special-file-opened", driver), format!("a FIFO/socket source was opened: {}", e), json!({"argv": inv1.argv_s()}));
    }
    let mut descr = "none".to_string();
    let mut rules = vec![];
    let baseline_calls = base.total_calls;
    if base.timed_out {
        // the fault-free, unscheduled run already hangs: confirm with a longer limit below
        descr = "fault-free".into();
    } else if let Some((pi, ei)) = c.fault {
        let mut occ: BTreeMap<(Sys, Vec<u8>), usize> = BTreeMap::new();
        let mut points = vec![];
        for e in &base.log {
            if let Some(p) = &e.path {
                if p.starts_with(&root1) {
                    let k = occ.entry((e.sys, p.clone())).or_insert(0);
                    let errs = errnos_for(e);
                    if !errs.is_empty() {
                        points.push((e.sys, p[root1.len()..].to_vec(), *k, errs, e.th));
                    }
                    *k += 1;
                }
            }
        }
        if !points.is_empty() {
            let (sys, rel, k, errs, _th) = points[monotonic_index(pi, points.len())].clone();
            let errno = errs[ei as usize % errs.len()];
            descr = format!("{:?}#{} {} errno {}", sys, k, esc(&rel), errno);
            rules.push((sys, rel, k, errno));
        }
    }
    drop(sb1);
    // ---- the judged run: schedule + fault, 20 s
    let mut attempt = |limit: u64| -> Result<(SupOut, Vec<u8>, Vec<Vec<u8>>, Inv), String> {
        let (sb, inv, specials) = mk(c)?;
        let root = sb.rootb();
        let rs: Vec<Rule> = rules
            .iter()
            .map(|(sys, rel, k, errno)| {
                let mut p = root.clone();
                p.extend_from_slice(rel);
                Rule { sys: vec![*sys], path: PathSel::Exact(p), nth: Nth::Kth(*k), action: Action::Errno(*errno) }
            })
            .collect();
        let mut spec = sup_spec(&sb, inv.argv(), rs, sched_of(&c.run));
        spec.timeout = std::time::Duration::from_secs(limit);
        let o = Sup::run(spec);
        if let Some(e) = &o.setup_error {
            return Err(format!("supervisor {e}"));
        }
        Ok((o, root, specials, inv))
    };
    let (out, root, specials, inv) = match attempt(20) {
        Ok(x) => x,
        Err(e) => return Verdict::Inconclusive(e),
    };
    rec.eval(1);
    if let Some(e) = never_opened(&out, &root, &specials) {
        return Verdict::faild(format!("C07|{}|special-file-opened", driver), format!("a FIFO/socket source was opened: {}", e), json!({"argv": inv.argv_s()}));
    }
    let fired: Vec<&Ev> = out.log.iter().filter(|e| e.act.is_some()).collect();
    let th_role = fired.first().and_then(|e| out.roles.get(e.th)).copied().unwrap_or(Role::Unknown);
    let others_busy = fired.first().map(|f| out.log.iter().any(|e| e.th != f.th && e.t_in > f.t_in && e.path.as_ref().map(|p| p.starts_with(&root)).unwrap_or(false))).unwrap_or(false);
    if c.gitignore > 0 && c.shape == 0 {
        rec.class(format!("gitignore-file-kind={}", ["-", "fifo", "socket", "regular"][c.gitignore as usize % 4]));
    }
    if c.shape == 0 && c.big.is_none() && c.run.seed % 13 == 1 {
        rec.class("fifo-in-destination-where-a-file-goes".to_string());
    }
    if c.block == Some(0) {
        rec.class(format!("block-size=0|{}", if c.run.parblock { "parblock" } else { "parfile" }));
    }
    let shape = if c.big.is_some() { "big-tree" } else { ["tree", "fifo-source", "socket-source", "empty-dir", "empty-file"][c.shape as usize % 5] };
    let key = format!(
        "{}|w{}|{}|{}|fault={}|{}|specials={}|exit={}",
        driver,
        c.run.workers,
        shape,
        format!("{:?}", sched_of(&c.run).kind).split('(').next().unwrap_or(""),
        fired.first().map(|e| format!("{:?}", e.sys)).unwrap_or_else(|| "none".into()),
        super::c04::role_name(th_role),
        specials.len(),
        if out.timed_out { "HANG".to_string() } else { format!("{:?}", out.code.map(|c| c != 0)) }
    );
    let new = rec.class(key);
    if (!fired.is_empty() && th_role != Role::Main && others_busy) || !specials.is_empty() || c.shape >= 3 {
        rec.nontrivial(case_hash(c));
    }
    rec.max("max_wall_ms", out.wall.as_millis() as i64);
    if new {
        rec.sample(json!({"argv": inv.argv_s(), "schedule": format!("{:?}", sched_of(&c.run)), "fault": descr, "specials": specials.iter().map(|s| esc(s)).collect::<Vec<_>>(), "exit": out.code, "wall_ms": out.wall.as_millis() as u64, "threads": out.threads}));
    }
    if !out.timed_out {
        return Verdict::Pass;
    }
    // ---- exceeded 20 s (>= 200x a normal run): confirm once under 60 s and name the state
    let (out2, _, _, _) = match attempt(60) {
        Ok(x) => x,
        Err(e) => return Verdict::Inconclusive(e),
    };
    rec.eval(1);
    if !out2.timed_out {
        rec.count("slow_but_finished", 1);
        return Verdict::Inconclusive(format!("run exceeded 20 s once but finished on re-run ({:?})", out2.wall));
    }
    match classify_hang(&out2, baseline_calls) {
        Some(state) => {
            let kind = if state.starts_with("deadlock") { "deadlock" } else { "spin" };
            Verdict::faild(
                format!("C07|{}|{}|fault={}", driver, kind, fired.first().map(|e| format!("{:?}", e.sys)).unwrap_or_else(|| "none".into())),
                format!("xcp does not terminate (60 s, twice): {}", state),
                json!({"argv": inv.argv_s(), "schedule": format!("{:?}", sched_of(&c.run)), "fault": descr, "threads": out2.hang_state, "valve_releases": out2.valve_releases}),
            )
        }
        None => Verdict::Inconclusive(format!("hang without a confirmable state: {}", out2.hang_state.unwrap_or_default())),
    }
}

/// C05's fault plans (short counts, unsupported copy/clone/extent facilities) under the hang oracle
fn judge_plan(c: &super::c05::Case, rec: &mut Rec) -> Verdict {
    use super::c01;
    use super::c05;
    let run = |limit: u64| -> Result<(SupOut, Vec<String>), String> {
        let sb = Sandbox::new().map_err(|e| format!("sandbox: {e}"))?;
        materialise(&sb.root, &c01::ents_for(&c.base)).map_err(|e| format!("materialise: {e}"))?;
        let args = c01::args_for(&c.base);
        let mut spec = sup_spec(&sb, args.clone(), c05::rules_for(c), Sched::free());
        spec.timeout = std::time::Duration::from_secs(limit);
        let o = Sup::run(spec);
        if let Some(e) = &o.setup_error {
            return Err(format!("supervisor {e}"));
        }
        Ok((o, args.iter().map(|a| esc(a)).collect()))
    };
    if matches!(c.plan, c05::PlanKind::NaturalCrossFs | c05::PlanKind::NaturalTmpfs) {
        return Verdict::Pass;
    }
    let (o, argv) = match run(20) {
        Ok(x) => x,
        Err(e) => return Verdict::Inconclusive(e),
    };
    rec.eval(1);
    let driver = if c.base.parblock { "parblock" } else { "parfile" };
    rec.class(format!("plan|{}|{}|{}", c05::plan_name(&c.plan).split('/').next().unwrap_or(""), driver, if o.timed_out { "HANG" } else { "exits" }));
    if o.fired.iter().sum::<usize>() > 0 {
        rec.nontrivial(case_hash(c));
    }
    if !o.timed_out {
        return Verdict::Pass;
    }
    let (o2, _) = match run(60) {
        Ok(x) => x,
        Err(e) => return Verdict::Inconclusive(e),
    };
    rec.eval(1);
    if !o2.timed_out {
        return Verdict::Inconclusive("slow but finished".into());
    }
    // baseline call count: a run of the same case without the plan is not available cheaply; use a
    // generous absolute bound instead (these cases make a few thousand calls at most)
    match classify_hang(&o2, 3_000) {
        Some(state) => {
            let kind = if state.starts_with("deadlock") { "deadlock" } else { "spin" };
            Verdict::faild(
                format!("C07|{}|{}|plan={}", driver, kind, c05::plan_name(&c.plan).split('/').next().unwrap_or("")),
                format!("xcp does not terminate under plan {} (60 s, twice): {}", c05::plan_name(&c.plan), state),
                json!({"argv": argv, "plan": c05::plan_name(&c.plan), "threads": o2.hang_state, "total_calls": o2.total_calls}),
            )
        }
        None => Verdict::Inconclusive(format!("hang without a confirmable state ({} calls): {}", o2.total_calls, o2.hang_state.unwrap_or_default())),
    }
}

/// library client with a big tree and several failing operations: copy() must still return
#[derive(Clone, Debug, Serialize, Deserialize)]
pub struct ApiBig {
    pub nfiles: u16,
    /// every k-th destination file is pre-created as a directory (the copy of that file fails)
    pub every: u8,
    pub workers: u8,
    pub parblock: bool,
    pub updater: u8,
}

fn apibig_strategy() -> BoxedStrategy<ApiBig> {
    (prop_oneof![Just(600u16), Just(1500u16), Just(3000u16)], prop_oneof![Just(7u8), Just(10u8), Just(50u8)], prop_oneof![Just(1u8), Just(2u8), Just(4u8)], any::<bool>(), 0u8..3)
        .prop_map(|(nfiles, every, workers, parblock, updater)| ApiBig { nfiles, every, workers, parblock, updater })
        .boxed()
}

fn judge_apibig(c: &ApiBig, rec: &mut Rec) -> Verdict {
    let sb = match Sandbox::new() {
        Ok(s) => s,
        Err(e) => return Verdict::Inconclusive(format!("sandbox: {e}")),
    };
    let mut ents = vec![Ent::dir(b"s"), Ent::dir(b"d"), Ent::dir(b"d/s")];
    for i in 0..c.nfiles {
        ents.push(Ent::file(format!("s/f{}", i).as_bytes(), Content::data((i % 30) as u64, 1)));
        if i % c.every as u16 == 3 {
            ents.push(Ent::dir(format!("d/s/f{}", i).as_bytes()));
        }
    }
    if let Err(e) = materialise(&sb.root, &ents) {
        return Verdict::Inconclusive(format!("materialise: {e}"));
    }
    let updater = ["record", "channel", "noop"][c.updater as usize % 3];
    let cfg = json!({"driver": if c.parblock { "parblock" } else { "parfile" }, "sources": ["s"], "dest": "d", "workers": c.workers, "block_size": u64::MAX, "updater": updater, "drain_timeout_ms": 15000});
    let mut spec = crate::run::RunSpec::xcp(vec![b"copy".to_vec()], &sb.root, &sb.out);
    spec.bin = std::path::PathBuf::from(crate::run::PROBE_BIN);
    spec.stdin_data = Some(serde_json::to_vec(&cfg).unwrap());
    spec.timeout = std::time::Duration::from_secs(90);
    let o = crate::run::run_plain(&spec);
    rec.eval(1);
    let driver = if c.parblock { "parblock" } else { "parfile" };
    rec.class(format!("apibig|{}|{}|w{}|n={}", driver, updater, c.workers, c.nfiles));
    rec.nontrivial(case_hash(c));
    if o.timed_out {
        return Verdict::Inconclusive("probe itself did not finish".into());
    }
    let first = o.stdout.split(|b| *b == b'\n').next().unwrap_or(b"");
    let v: Value = match serde_json::from_slice(first) {
        Ok(v) => v,
        Err(e) => return Verdict::Inconclusive(format!("probe output: {e}")),
    };
    let returned = v.get("returned").and_then(|x| x.as_bool()).unwrap_or(false);
    let closed = v.get("closed").and_then(|x| x.as_bool()).unwrap_or(false);
    if !returned || !closed {
        return Verdict::faild(
            format!("C07|api|{}|{}|{}", driver, updater, if !returned { "copy-did-not-return" } else { "stream-not-closed" }),
            format!("library client: {} files, every {}th destination a directory, {} workers: copy() {} within 15 s", c.nfiles, c.every, c.workers, if !returned { "did not return" } else { "returned but the stream did not end" }),
            json!({"config": cfg, "probe": {"ok": v.get("ok"), "error": v.get("error"), "returned": returned, "closed": closed}}),
        );
    }
    Verdict::Pass
}

/// library client: copy() returns and the stream ends, under schedules and faults (C12's probe)
fn judge_api(c: &c12::Case, rec: &mut Rec) -> Verdict {
    let mut scratch = Rec::default();
    let v = c12::judge(c, &mut scratch);
    rec.eval(scratch.evaluations);
    rec.class(format!("api|{}|{}|fault{}", if c.parblock { "parblock" } else { "parfile" }, ["record", "channel", "noop"][c.updater as usize % 3], c.fault));
    rec.nontrivial(case_hash(c));
    match v {
        Verdict::Fail(sig, reason, d) if sig.contains("copy-did-not-return") || sig.contains("stream-not-closed") => Verdict::Fail(sig.replace("C12|", "C07|api|"), reason, d),
        Verdict::Inconclusive(w) => Verdict::Inconclusive(w),
        _ => Verdict::Pass, // other clauses belong to C12
    }
}

impl Check for C07 {
    fn id(&self) -> &'static str {
        "C07"
    }
    fn rule(&self) -> String {
        "proptest-generated (tree of 0-23 entries with links, optionally 1-2 FIFOs/sockets inside; or a FIFO / a socket / an empty directory / an empty file as the sole source) x (driver, workers incl. 1, 2, 64, schedule kind, seed, priority change points) x --block-size absent/1024/4096/0 x (one case in eleven) --gitignore with the source root's .gitignore being a FIFO / a socket / an empty file x (one case in thirteen) a FIFO sitting in the destination exactly where a regular file must go x optional single fault: a recording run enumerates the fault points (C04's errno table) and one is failed in the judged run, which executes under the ptrace priority scheduler with a 20 s limit (>= 200x a normal run). Oracle: the process exits; a run over the limit is re-run once under 60 s and counts as a violation only if it is over again AND the supervisor names the state - deadlock (every live thread inside a blocking call, none held by the scheduler) or spin (> 100x the fault-free call count, or the last 2000 recorded calls are <= 8 distinct (thread, call, path) combinations out of >= 20000, or >= 12 s of CPU time with nobody held); otherwise the case is inconclusive. Independently any open() of a FIFO/socket source is a violation (never opened and read). Sub-check 'plan' runs C05's fault plans (short counts, copy_file_range/FICLONE/FIEMAP unavailable, EINTR) under the same hang oracle; 'big' puts 200-700 files behind a FIFO whose destination is a directory (1-4 workers) so that bounded queues lose their consumers; 'apibig' runs the library-client probe on 600-3000 files with every 7th/10th/50th destination pre-created as a directory. The 'api' sub-check runs the library-client probe (copy on a thread, documented receiver loop) under schedules and faults: copy() must return and the stream must end. Non-trivial: a fault fired in a non-main thread while another thread still had work, or special files / empty inputs present; distinct by case hash.".into()
    }
    fn assumptions(&self) -> Vec<String> {
        vec!["liveness is bounded-time evidence; scheduler holds are finite (200 ms safety valve), so the instrument cannot cause the hang it reports".into()]
    }
    fn needs(&self) -> Needs {
        Needs { xcp: true, probe: true, fallback: false }
    }
    fn run_shard(&self, ctx: &Ctx, rec: &mut Rec) {
        let (n, na) = match ctx.tier {
            Tier::Quick => (2400, 600),
            Tier::Thorough => (80000, 20000),
        };
        prop_loop(ctx, rec, "cli", strategy(), ctx.share(n), judge);
        prop_loop(ctx, rec, "big", big_strategy(), ctx.share(n / 40), judge);
        prop_loop(ctx, rec, "plan", super::c05::strategy(), ctx.share(n / 2), judge_plan);
        prop_loop(ctx, rec, "apibig", apibig_strategy(), ctx.share(n / 50), judge_apibig);
        let api = c12::strategy().prop_map(|mut c| {
            if c.sup.is_none() {
                c.sup = Some(RunCfg { parblock: c.parblock, workers: c.workers, kind: (c.fault_k % 8), seed: c.fault_k as u64 * 7919 + c.workers as u64, change_points: vec![], stall: None, cfr: 0 });
            }
            c
        });
        prop_loop(ctx, rec, "api", api, ctx.share(na), judge_api);
    }
    fn replay(&self, _ctx: &Ctx, sub: &str, case: &Value) -> Verdict {
        if sub == "apibig" {
            return match serde_json::from_value::<ApiBig>(case.clone()) {
                Ok(c) => judge_apibig(&c, &mut Rec::default()),
                Err(e) => Verdict::Inconclusive(format!("bad case: {e}")),
            };
        }
        if sub == "plan" {
            return match serde_json::from_value::<super::c05::Case>(case.clone()) {
                Ok(c) => judge_plan(&c, &mut Rec::default()),
                Err(e) => Verdict::Inconclusive(format!("bad case: {e}")),
            };
        }
        if sub == "api" {
            return match serde_json::from_value::<c12::Case>(case.clone()) {
                Ok(c) => judge_api(&c, &mut Rec::default()),
                Err(e) => Verdict::Inconclusive(format!("bad case: {e}")),
            };
        }
        match serde_json::from_value::<Case>(case.clone()) {
            Ok(c) => judge(&c, &mut Rec::default()),
            Err(e) => Verdict::Inconclusive(format!("bad case: {e}")),
        }
    }
    fn min_nontrivial(&self, tier: Tier) -> usize {
        match tier {
            Tier::Quick => 800,
            Tier::Thorough => 20000,
        }
    }
    fn required_classes(&self, _tier: Tier) -> Vec<String> {
        ["fifo-source", "socket-source", "empty-dir", "empty-file", "|w64|", "|w1|", "|worker|", "|walker|", "|dispatcher|", "api|parblock", "api|parfile|channel", "big-tree", "plan|cfr-errno38", "plan|clamp-cfr", "apibig|parfile", "apibig|parblock", "gitignore-file-kind=fifo", "block-size=0|parfile", "block-size=0|parblock", "fifo-in-destination-where-a-file-goes"].iter().map(|s| s.to_string()).collect()
    }
}
