//! Shared proptest generators.

use crate::spec::*;
use proptest::prelude::*;

pub const BLOCK_SIZES: &[u64] = &[1, 2, 3, 7, 512, 4095, 4096, 4097, 65536, 1 << 20];

/// a length in the neighbourhood of multiples of `b`: {0,1} ∪ {k·b−1, k·b, k·b+1 : k≤maxk} ∪ uniform
pub fn len_near(b: u64, maxk: u64) -> BoxedStrategy<u64> {
    let maxk = std::cmp::max(1, maxk);
    prop_oneof![
        1 => Just(0u64),
        1 => Just(1u64),
        6 => (1..=maxk, 0u64..3).prop_map(move |(k, d)| (k * b + d).saturating_sub(1)),
        4 => (0..=maxk * b + 1),
    ]
    .boxed()
}

/// File content as a list of data/hole segments sized relative to block size `b`,
/// with at most `max_blocks` blocks and `max_bytes` bytes in total.
pub fn content(b: u64, max_blocks: u64, max_bytes: u64) -> BoxedStrategy<Content> {
    let cap = std::cmp::max(1, std::cmp::min(max_bytes, b.saturating_mul(max_blocks)));
    let maxk = std::cmp::max(1, std::cmp::min(6, cap / std::cmp::max(1, b)));
    // long runs as well: up to 3000 blocks in one segment (many block jobs for one range)
    let maxk_big = std::cmp::max(1, std::cmp::min(3000, cap / std::cmp::max(1, b)));
    let seg_len = prop_oneof![8 => len_near(b, maxk), 2 => len_near(b, maxk_big)];
    let seg = (prop_oneof![5 => Just(0u8), 3 => Just(1u8), 1 => Just(2u8), 1 => Just(3u8)], seg_len, 0u8..8, prop_oneof![2 => Just(0u64), 1 => Just(4096u64), 1 => Just(65536u64)]);
    (prop::collection::vec(seg, 1..5), any::<bool>())
        .prop_map(move |(segs, sync)| {
            let mut out = vec![];
            let mut total = 0u64;
            for (kind, len, seed, hole_round) in segs {
                let mut len = len;
                if kind == 1 && hole_round > 0 {
                    // make some holes real (aligned, at least one fs block)
                    len = ((len / hole_round) + 1) * hole_round;
                }
                if total + len > cap {
                    len = cap - total;
                }
                if len == 0 {
                    continue;
                }
                total += len;
                out.push(match kind {
                    0 => Seg::Data(len, seed),
                    1 => Seg::Hole(len),
                    2 => Seg::Zero(len),
                    // preallocated range, partly written (unwritten-extent bookkeeping of the filesystem)
                    _ => Seg::PreData(len, std::cmp::max(1, len / (1 + seed as u64 % 3)), seed),
                });
            }
            Content { segs: out, sync }
        })
        .boxed()
}

/// a simple dense content of given length
pub fn dense(len: impl Strategy<Value = u64> + 'static) -> BoxedStrategy<Content> {
    (len, 0u8..8).prop_map(|(l, s)| Content::data(l, s)).boxed()
}

pub fn block_size() -> BoxedStrategy<Option<u64>> {
    prop_oneof![
        2 => Just(None),
        10 => (0..BLOCK_SIZES.len()).prop_map(|i| Some(BLOCK_SIZES[i])),
        3 => prop_oneof![1u64..100, 100u64..70000, 70000u64..(1u64 << 21), Just(1_000_000u64), Just(999_999u64), Just(1_000_001u64)].prop_map(Some),
    ]
    .boxed()
}

pub fn workers() -> BoxedStrategy<u8> {
    prop_oneof![3 => 1u8..=4, 2 => 5u8..=16, 1 => Just(0u8)].boxed()
}

pub fn blocks_class(len: u64, b: u64) -> &'static str {
    let n = nblocks(len, b);
    match n {
        0 => "0blk",
        1 => "1blk",
        2..=8 => "2-8blk",
        9..=128 => "9-128blk",
        _ => ">128blk",
    }
}

pub fn size_rel(len: u64, b: u64) -> &'static str {
    if len == 0 {
        "empty"
    } else if len < b {
        "<b"
    } else if len % b == 0 {
        "k*b"
    } else if len % b == 1 {
        "k*b+1"
    } else if len % b == b - 1 {
        "k*b-1"
    } else {
        "other"
    }
}

pub fn layout_class(c: &Content) -> &'static str {
    let holes = c.segs.iter().filter(|s| matches!(s, Seg::Hole(_))).count();
    let datas = c.segs.iter().filter(|s| matches!(s, Seg::Data(..))).count();
    match (datas, holes) {
        (0, 0) => "nodata",
        (0, _) => "allhole",
        (_, 0) => "dense",
        _ => {
            if matches!(c.segs.first(), Some(Seg::Hole(_))) {
                "lead-hole"
            } else if matches!(c.segs.last(), Some(Seg::Hole(_))) {
                "trail-hole"
            } else {
                "mid-hole"
            }
        }
    }
}

pub fn nblocks(len: u64, b: u64) -> u64 {
    if len == 0 || b == 0 {
        0
    } else {
        (len - 1) / b + 1
    }
}
