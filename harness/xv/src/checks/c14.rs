//! C14 — FIFOs, sockets and character devices are recreated as identical nodes; block devices fail.

use super::c06::sup_spec;
use super::{Check, Needs};
use crate::engine::*;
use crate::model;
use crate::sandbox::*;
use crate::spec::*;
use crate::sup::*;
use crate::util::*;
use proptest::prelude::*;
use serde::{Deserialize, Serialize};
use serde_json::{json, Value};

pub struct C14;

#[derive(Clone, Debug, Serialize, Deserialize)]
pub struct Node {
    /// 0 fifo, 1 socket, 2 char, 3 block
    pub kind: u8,
    pub major: u32,
    pub minor: u32,
    pub mode: u16,
    /// destination pre-state: 0 fresh, 1 regular file, 2 fifo, 3 symlink to a file, 4 dangling symlink
    pub dest: u8,
}

#[derive(Clone, Debug, Serialize, Deserialize)]
pub struct Case {
    pub nodes: Vec<Node>,
    /// true: nodes live in directory s and are copied with -r; false: first node is the sole source
    pub in_tree: bool,
    pub umask: u8,
    pub no_clobber: bool,
    pub parblock: bool,
    pub workers: u8,
    /// 0: the xcp binary; 1-3: a library client (probe) with the record / channel / noop updater - "the run fails"
    /// then means copy() returns an error
    #[serde(default)]
    pub via_lib: u8,
}

fn node() -> BoxedStrategy<Node> {
    (
        prop_oneof![3 => Just(0u8), 3 => Just(1u8), 5 => Just(2u8), 1 => Just(3u8)],
        prop_oneof![2 => 0u32..4096, 1 => Just(1u32), 1 => Just(4095u32), 1 => Just(254u32)],
        prop_oneof![2 => 0u32..(1 << 20), 1 => Just(3u32), 1 => Just((1u32 << 20) - 1), 1 => Just(256u32)],
        prop_oneof![3 => 0u16..0o1000, 1 => Just(0o644u16), 1 => Just(0o666u16), 1 => Just(0o777u16), 1 => Just(0u16)],
        prop_oneof![5 => Just(0u8), 1 => Just(1u8), 1 => Just(2u8), 1 => Just(3u8), 1 => Just(4u8)],
    )
        .prop_map(|(kind, major, minor, mode, dest)| Node { kind, major, minor, mode, dest })
        .boxed()
}

pub fn strategy() -> BoxedStrategy<Case> {
    (prop::collection::vec(node(), 1..4), any::<bool>(), 0u8..3, prop::bool::weighted(0.25), any::<bool>(), 1u8..6, prop_oneof![4 => Just(0u8), 1 => 1u8..4])
        .prop_map(|(nodes, in_tree, umask, no_clobber, parblock, workers, via_lib)| Case { nodes, in_tree, umask, no_clobber, parblock, workers, via_lib })
        .boxed()
}

fn umask_of(c: &Case) -> u32 {
    [0o000, 0o022, 0o077][c.umask as usize % 3]
}

fn build(c: &Case) -> (Vec<Ent>, Vec<Vec<u8>>, Vec<(Vec<u8>, Vec<u8>)>) {
    let s = |x: &str| x.as_bytes().to_vec();
    let mut ents = vec![Ent::dir(b"d"), Ent::dir(b"by"), Ent::file(b"by/keep", Content::data(9, 1))];
    let n = if c.in_tree { c.nodes.len() } else { 1 };
    let sdir: &[u8] = if c.in_tree { b"s" } else { b"" };
    if c.in_tree {
        ents.push(Ent::dir(b"s"));
        ents.push(Ent::file(b"s/regular", Content::data(100, 2)));
        if c.nodes.iter().take(n).any(|x| x.dest != 0) {
            ents.push(Ent::dir(b"d/s"));
        }
    }
    let mut pairs = vec![];
    for (i, nd) in c.nodes.iter().take(n).enumerate() {
        let name = format!("n{}", i).into_bytes();
        let sp = join(sdir, &name);
        let kind = match nd.kind % 4 {
            0 => Kind::Fifo,
            1 => Kind::Sock,
            2 => Kind::Char(nd.major, nd.minor),
            _ => Kind::Block(nd.major, nd.minor),
        };
        let mut e = Ent::new(&sp, kind);
        e.mode = Some(nd.mode as u32);
        ents.push(e);
        let dp = if c.in_tree { join(b"d/s", &name) } else { join(b"d", &name) };
        match nd.dest % 5 {
            1 => ents.push(Ent::file(&dp, Content::data(5, 3)).with_mode(0o600)),
            2 => ents.push(Ent::new(&dp, Kind::Fifo)),
            3 => ents.push(Ent::link(&dp, if c.in_tree { b"../../by/keep" } else { b"../by/keep" })),
            4 => ents.push(Ent::link(&dp, b"nowhere")),
            _ => {}
        }
        pairs.push((sp, dp));
    }
    let mut a = vec![s("--driver"), s(if c.parblock { "parblock" } else { "parfile" }), s("--workers"), c.workers.to_string().into_bytes()];
    if c.no_clobber {
        a.push(s("-n"));
    }
    if c.in_tree {
        a.extend([s("-r"), s("s"), s("d")]);
    } else {
        a.extend([s("n0"), s("d")]);
    }
    (ents, a, pairs)
}

pub fn judge(c: &Case, rec: &mut Rec) -> Verdict {
    let sb = match Sandbox::new() {
        Ok(s) => s,
        Err(e) => return Verdict::Inconclusive(format!("sandbox: {e}")),
    };
    let root = sb.rootb();
    let (ents, args, pairs) = build(c);
    if let Err(e) = materialise(&sb.root, &ents) {
        return Verdict::Inconclusive(format!("materialise: {e}"));
    }
    let pre = match snapshot(&sb.root) {
        Ok(s) => s,
        Err(e) => return Verdict::Inconclusive(format!("snapshot: {e}")),
    };
    let mut spec = sup_spec(&sb, args.clone(), vec![], Sched::free());
    spec.umask = umask_of(c);
    spec.timeout = std::time::Duration::from_secs(15);
    let updater = ["", "record", "channel", "noop"][c.via_lib as usize % 4];
    if !updater.is_empty() {
        let cfg = json!({"driver": if c.parblock { "parblock" } else { "parfile" }, "sources": [if c.in_tree { "s" } else { "n0" }], "dest": "d", "workers": c.workers, "block_size": 1u64 << 20,
            "updater": updater, "no_clobber": c.no_clobber, "drain_timeout_ms": 10000});
        let inp = sb.out.join("stdin.json");
        if std::fs::write(&inp, serde_json::to_vec(&cfg).unwrap()).is_err() {
            return Verdict::Inconclusive("stdin".into());
        }
        spec.bin = std::path::PathBuf::from("/bin/sh");
        spec.args = vec![b"-c".to_vec(), format!("exec {} copy < {}", crate::run::PROBE_BIN, inp.display()).into_bytes()];
        spec.extra_roots = vec![pbytes(&sb.out)];
        spec.timeout = std::time::Duration::from_secs(60);
    }
    let out = Sup::run(spec);
    rec.eval(1);
    if out.setup_error.is_some() {
        return Verdict::Inconclusive(format!("supervisor {:?}", out.setup_error));
    }
    // the verdict of the run: exit status of xcp, or what copy() returned to the library client
    let run_ok = if updater.is_empty() {
        out.ok()
    } else {
        let first = out.stdout.split(|b| *b == b'\n').next().unwrap_or(b"");
        match serde_json::from_slice::<Value>(first) {
            Ok(v) => match (v.get("ok").and_then(|x| x.as_bool()), v.get("returned").and_then(|x| x.as_bool())) {
                (Some(ok), Some(true)) => ok,
                _ => return Verdict::Inconclusive(format!("probe: {}", String::from_utf8_lossy(first).chars().take(200).collect::<String>())),
            },
            Err(e) => return Verdict::Inconclusive(format!("probe output: {e}")),
        }
    };
    let argv_s: Vec<String> = args.iter().map(|a| esc(a)).collect();
    let driver = if c.parblock { "parblock" } else { "parfile" };
    let n = pairs.len();
    let kinds: Vec<u8> = c.nodes.iter().take(n).map(|x| x.kind % 4).collect();
    // never opened (also the reason a FIFO cannot hang the copy)
    for (sp, _) in &pairs {
        let abs = join(&root, sp);
        if let Some(e) = out.log.iter().find(|e| e.sys == Sys::Open && e.path.as_deref() == Some(abs.as_slice())) {
            return Verdict::faild(format!("C14|{}|special-source-opened", driver), format!("special file was opened: {}", e.short()), json!({"argv": argv_s}));
        }
    }
    if out.timed_out {
        return Verdict::Inconclusive(format!("watchdog: {}", out.hang_state.unwrap_or_default()));
    }
    let post = match snapshot(&sb.root) {
        Ok(s) => s,
        Err(e) => return Verdict::Inconclusive(format!("snapshot: {e}")),
    };
    let kn = |k: u8| ["fifo", "sock", "char", "block"][k as usize % 4];
    let has_block = kinds.contains(&3);
    let collision = c.nodes.iter().take(n).any(|x| matches!(x.dest % 5, 1 | 2 | 3 | 4));
    let key = format!(
        "{}|{}|umask{:o}|{}|{}|{}|exit={}",
        driver,
        kinds.iter().map(|k| kn(*k)).collect::<Vec<_>>().join("+"),
        umask_of(c),
        if c.in_tree { "tree" } else { "sole" },
        if collision { "existing-dest" } else { "fresh" },
        if c.no_clobber { "noclobber" } else { "clobber" },
        if run_ok { "0" } else { "!0" }
    );
    let new = rec.class(key);
    if !updater.is_empty() {
        rec.class(format!("library|{}|{}|block={}|ok={}", updater, driver, has_block, run_ok));
    }
    if new {
        rec.sample(json!({"argv": argv_s, "client": if updater.is_empty() { "xcp".to_string() } else { format!("libxcp client, {} updater", updater) }, "umask": format!("{:o}", umask_of(c)), "nodes": c.nodes.iter().take(n).map(|x| format!("{} {}:{} mode {:o} dest-state {}", kn(x.kind), x.major, x.minor, x.mode, x.dest % 5)).collect::<Vec<_>>(), "exit": out.code}));
    }
    if has_block {
        rec.nontrivial(case_hash(c));
        if run_ok {
            return Verdict::faild(format!("C14|{}|block-device-accepted", driver), "a block device among the sources but exit 0".to_string(), json!({"argv": argv_s}));
        }
        return Verdict::Pass;
    }
    if c.no_clobber {
        // every pre-existing destination entry untouched; a collision must fail the run
        for (i, (_, dp)) in pairs.iter().enumerate() {
            if c.nodes[i].dest % 5 != 0 {
                if let (Some(a), Some(b)) = (pre.get(dp), post.get(dp)) {
                    if let Some(d) = model::meta_diff(a, b, false) {
                        return Verdict::faild(format!("C14|{}|noclobber-entry-changed", driver), format!("-n but existing {} changed: {}", esc(dp), d), json!({"argv": argv_s}));
                    }
                } else {
                    return Verdict::faild(format!("C14|{}|noclobber-entry-removed", driver), format!("-n but existing {} vanished", esc(dp)), json!({"argv": argv_s}));
                }
            }
        }
        // (a dangling link is "existing" for the property; whether xcp notices is C08's finding class)
        if collision && run_ok {
            let only_dangling = c.nodes.iter().take(n).all(|x| matches!(x.dest % 5, 0 | 4));
            return Verdict::faild(
                format!("C14|{}|noclobber-collision-exit0{}", driver, if only_dangling { "|dangling-link" } else { "" }),
                "-n and a special file maps onto an existing entry, but exit 0".to_string(),
                json!({"argv": argv_s}),
            );
        }
    }
    if !run_ok {
        rec.count("exit_nonzero", 1);
        // "replacing an existing entry unless no-clobber is set": without -n, an existing regular file,
        // fifo or symlink (valid or dangling: it is an entry) at the destination path must be replaced,
        // not make the copy fail
        let replaceable = true;
        if !c.no_clobber && collision && replaceable && out.signal.is_none() {
            return Verdict::faild(
                format!("C14|{}|existing-entry-not-replaced", driver),
                format!("no -n, destination holds a replaceable entry, but xcp exits {:?}: {}", out.code, out.stderr_s().lines().last().unwrap_or("")),
                json!({"argv": argv_s, "nodes": c.nodes.iter().take(n).map(|x| format!("{} dest-state {}", kn(x.kind), x.dest % 5)).collect::<Vec<_>>()}),
            );
        }
        return Verdict::Pass;
    }
    let mut nontrivial = false;
    for (i, (sp, dp)) in pairs.iter().enumerate() {
        let nd = &c.nodes[i];
        let sm = &pre[sp];
        if nd.kind % 4 == 2 || nd.mode != 0o644 || nd.dest % 5 != 0 {
            nontrivial = true;
        }
        let dm = match post.get(dp) {
            Some(m) => m,
            None => return Verdict::faild(format!("C14|{}|missing", driver), format!("exit 0 but {} missing", esc(dp)), json!({"argv": argv_s})),
        };
        let what = if dm.kind != sm.kind {
            // with an existing symlink the node may have been created *through*/beside it: still wrong kind at dp
            Some(("kind", format!("kind is {:?}, source is {:?}", dm.kind, sm.kind)))
        } else if dm.rdev != sm.rdev {
            Some(("rdev", format!("device number is {}:{}, source is {}:{}", unsafe { libc::major(dm.rdev) }, unsafe { libc::minor(dm.rdev) }, unsafe { libc::major(sm.rdev) }, unsafe { libc::minor(sm.rdev) })))
        } else if dm.mode != (sm.mode & !umask_of(c)) {
            Some(("mode", format!("mode is {:o}, expected {:o} & ~{:o}", dm.mode, sm.mode, umask_of(c))))
        } else {
            None
        };
        if let Some((w, msg)) = what {
            return Verdict::faild(
                format!("C14|{}|{}|{}", driver, kn(nd.kind), w),
                format!("exit 0 but node {}: {}", esc(dp), msg),
                json!({"argv": argv_s, "umask": format!("{:o}", umask_of(c)), "dest_state": nd.dest % 5, "stderr": out.stderr_s()}),
            );
        }
    }
    if nontrivial {
        rec.nontrivial(case_hash(c));
    }
    Verdict::Pass
}

impl Check for C14 {
    fn id(&self) -> &'static str {
        "C14"
    }
    fn rule(&self) -> String {
        "proptest-generated special files: kind in {fifo, socket, char device, block device}, major 0..4095, minor 0..2^20 (never opened by anybody), mode 0..0777, umask 0/022/077, sole source or 1-3 nodes inside a recursively copied tree, destination path fresh or holding a regular file / fifo / symlink / dangling symlink, --no-clobber on/off, both drivers; the xcp binary or (one case in five) a libxcp client with the record / channel / noop updater, for which 'the run fails' means copy() returns an error; every run under the ptrace supervisor. Oracle: exit 0 => same S_IFMT, same st_rdev, mode = source mode & ~umask, an existing entry replaced; with -n existing entries unchanged and a collision gives exit != 0; a block device anywhere => exit != 0; the syscall log contains no open of a special source. Non-trivial: char device, mode != 0644, existing destination, or block device; distinct by case hash.".into()
    }
    fn assumptions(&self) -> Vec<String> {
        vec!["needs CAP_MKNOD (present: uid 0); device nodes are created but never opened".into()]
    }
    fn needs(&self) -> Needs {
        Needs { xcp: true, probe: true, fallback: false }
    }
    fn run_shard(&self, ctx: &Ctx, rec: &mut Rec) {
        let total = match ctx.tier {
            Tier::Quick => 9000,
            Tier::Thorough => 150000,
        };
        prop_loop(ctx, rec, "gen", strategy(), ctx.share(total), judge);
    }
    fn replay(&self, _ctx: &Ctx, _sub: &str, case: &Value) -> Verdict {
        match serde_json::from_value::<Case>(case.clone()) {
            Ok(c) => judge(&c, &mut Rec::default()),
            Err(e) => Verdict::Inconclusive(format!("bad case: {e}")),
        }
    }
    fn min_nontrivial(&self, tier: Tier) -> usize {
        match tier {
            Tier::Quick => 800,
            Tier::Thorough => 8000,
        }
    }
    fn required_classes(&self, _tier: Tier) -> Vec<String> {
        ["fifo", "sock", "char", "block", "|tree|", "|sole|", "existing-dest", "noclobber", "umask0|", "umask77|", "library|noop|parfile|block=true", "library|noop|parblock|block=true", "library|record|", "library|channel|"].iter().map(|s| s.to_string()).collect()
    }
}
