//! C15 — reflink modes keep their contract: never clones, always insists, auto falls back.

use super::c01::{self, compare_files, ents_for};
use super::c06::sup_spec;
use super::{Check, Needs};
use crate::engine::*;
use crate::sandbox::*;
use crate::spec::*;
use crate::sup::*;
use crate::util::*;
use proptest::prelude::*;
use serde::{Deserialize, Serialize};
use serde_json::{json, Value};

pub struct C15;

#[derive(Clone, Copy, Debug, Serialize, Deserialize, PartialEq)]
pub enum Answer {
    /// whatever the real filesystem says (EOPNOTSUPP on ext4)
    Real,
    Errno(i32),
    /// every clone request succeeds (emulated by the supervisor)
    EmulatedOk,
    /// clone requests succeed with probability 1/2 (by call index), the rest get the real answer
    EmulatedSome(u64),
}

#[derive(Clone, Debug, Serialize, Deserialize)]
pub struct Case {
    pub base: c01::Case,
    /// 0 auto, 1 always, 2 never, 3 default (no flag = auto)
    pub mode: u8,
    pub answer: Answer,
    /// -v given this many times (0-2): logging must not change the contract
    #[serde(default)]
    pub verbose: u8,
    /// stdout is /dev/full: every write of the logger fails with ENOSPC
    #[serde(default)]
    pub stdout_full: bool,
}

pub fn strategy() -> BoxedStrategy<Case> {
    let ans = prop_oneof![
        2 => Just(Answer::Real),
        1 => Just(Answer::Errno(libc::EOPNOTSUPP)),
        1 => Just(Answer::Errno(libc::EINVAL)),
        1 => Just(Answer::Errno(libc::EXDEV)),
        1 => Just(Answer::Errno(libc::EIO)),
        1 => Just(Answer::Errno(libc::ETXTBSY)),
        1 => Just(Answer::Errno(libc::ENOTTY)),
        1 => Just(Answer::Errno(libc::ENOSYS)),
        3 => Just(Answer::EmulatedOk),
        2 => any::<u64>().prop_map(Answer::EmulatedSome),
    ];
    (c01::strategy(), 0u8..4, ans, prop_oneof![3 => Just(0u8), 1 => Just(1u8), 2 => Just(2u8)], prop::bool::weighted(0.3))
        .prop_map(|(mut base, mode, answer, verbose, stdout_full)| {
            base.as_tree = true;
            base.reflink_never = false;
            // keep supervised runs short
            let b = c01::eff_block(&base);
            for f in base.files.iter_mut() {
                let max = std::cmp::min(b.saturating_mul(64), 4 << 20);
                let mut total = 0u64;
                for s in f.content.segs.iter_mut() {
                    let l = match s {
                        Seg::Data(l, _) | Seg::Hole(l) | Seg::Zero(l) | Seg::PreData(l, _, _) => l,
                    };
                    if total + *l > max {
                        *l = max - total;
                    }
                    total += *l;
                }
                f.content.segs.retain(|s| !matches!(s, Seg::Data(0, _) | Seg::Hole(0) | Seg::Zero(0)));
            }
            Case { base, mode, answer, verbose, stdout_full }
        })
        .boxed()
}

fn mode_name(m: u8) -> &'static str {
    ["auto", "always", "never", "default"][m as usize % 4]
}

pub fn judge(c: &Case, rec: &mut Rec) -> Verdict {
    let sb = match Sandbox::new() {
        Ok(s) => s,
        Err(e) => return Verdict::Inconclusive(format!("sandbox: {e}")),
    };
    let root = sb.rootb();
    if let Err(e) = materialise(&sb.root, &ents_for(&c.base)) {
        return Verdict::Inconclusive(format!("materialise: {e}"));
    }
    let mut args = c01::args_for(&c.base);
    let mode = mode_name(c.mode);
    if mode != "default" {
        args.insert(0, format!("--reflink={}", mode).into_bytes());
    }
    for _ in 0..c.verbose % 3 {
        args.insert(0, b"-v".to_vec());
    }
    let eff_mode = if mode == "default" { "auto" } else { mode };
    let rules = match c.answer {
        Answer::Real => vec![],
        Answer::Errno(e) => vec![Rule { sys: vec![Sys::Ficlone], path: PathSel::Sandbox, nth: Nth::All, action: Action::Errno(e) }],
        Answer::EmulatedOk => vec![Rule { sys: vec![Sys::Ficlone], path: PathSel::Sandbox, nth: Nth::All, action: Action::EmulateCloneOk }],
        Answer::EmulatedSome(seed) => vec![Rule { sys: vec![Sys::Ficlone], path: PathSel::Sandbox, nth: Nth::Prob(seed, 500), action: Action::EmulateCloneOk }],
    };
    let mut spec = sup_spec(&sb, args.clone(), rules, Sched::free());
    if c.stdout_full {
        spec.stdout_to = Some(std::path::PathBuf::from("/dev/full"));
    }
    let out = Sup::run(spec);
    rec.eval(1);
    if c.verbose % 3 > 0 {
        rec.class(format!("verbose={}|stdout={}|{}", c.verbose % 3, if c.stdout_full { "/dev/full" } else { "file" }, mode));
    }
    if out.setup_error.is_some() {
        return Verdict::Inconclusive(format!("supervisor {:?}", out.setup_error));
    }
    if out.timed_out {
        return Verdict::Inconclusive("watchdog".into());
    }
    let driver = if c.base.parblock { "parblock" } else { "parfile" };
    let argv_s: Vec<String> = args.iter().map(|a| esc(a)).collect();
    let ans_name = match c.answer {
        Answer::Real => "real".to_string(),
        Answer::Errno(e) => format!("errno{}", e),
        Answer::EmulatedOk => "emulated-ok".into(),
        Answer::EmulatedSome(_) => "emulated-some".into(),
    };
    let nonempty = c.base.files.iter().filter(|f| f.content.len() > 0).count();
    let key = format!("{}|{}|{}|files={}|exit={}", mode, ans_name, driver, match c.base.files.len() { 1 => "1", 2..=3 => "2-3", _ => "4+" }, if out.ok() { "0" } else { "!0" });
    let new = rec.class(key);
    if nonempty > 0 {
        rec.nontrivial(case_hash(c));
    }
    // per destination file: clone events and data-copy events
    let clones: Vec<&Ev> = out.log.iter().filter(|e| e.sys == Sys::Ficlone).collect();
    if new {
        rec.sample(json!({"argv": argv_s, "answer": ans_name, "files": c.base.files.iter().map(|f| f.content.len()).collect::<Vec<_>>(), "exit": out.code,
            "clone_calls": clones.iter().take(4).map(|e| e.short()).collect::<Vec<_>>()}));
    }
    let fail = |what: &str, msg: String| Verdict::faild(format!("C15|{}|{}|{}", eff_mode, driver, what), msg, json!({"argv": argv_s, "answer": ans_name, "exit": out.code, "stderr": out.stderr_s()}));
    if eff_mode == "never" {
        if let Some(e) = clones.first() {
            return fail("clone-issued", format!("--reflink=never but a clone request was issued: {}", e.short()));
        }
        if out.ok() {
            if let Some((i, why)) = compare_files(&sb, &c.base) {
                return fail("content", format!("exit 0 but file {} {}", i, why));
            }
        }
        return Verdict::Pass;
    }
    let dest_paths: Vec<Vec<u8>> = (0..c.base.files.len()).map(|i| join(&root, &c01::dest_of(&c.base, i))).collect();
    for dp in &dest_paths {
        let first_clone = out.log.iter().filter(|e| e.sys == Sys::Ficlone && e.path.as_deref() == Some(dp.as_slice())).map(|e| e.t_in).min();
        let first_data = out.log.iter().filter(|e| (e.sys.is_data_write()) && e.path.as_deref() == Some(dp.as_slice())).map(|e| e.t_in).min();
        if let Some(fd) = first_data {
            match first_clone {
                Some(fc) if fc < fd => {}
                _ => return fail("copy-before-clone-attempt", format!("data was copied to {} before (or without) a clone attempt", esc(dp))),
            }
        }
    }
    let any_unsupported = clones.iter().any(|e| !e.ok());
    if eff_mode == "always" {
        if out.ok() {
            for dp in &dest_paths {
                let cloned = out.log.iter().any(|e| e.sys == Sys::Ficlone && e.ok() && e.path.as_deref() == Some(dp.as_slice()));
                let copied = out.log.iter().any(|e| e.sys.is_data_write() && e.path.as_deref() == Some(dp.as_slice()));
                if !cloned || copied {
                    return fail("exit0-without-clone", format!("--reflink=always exit 0 but {} was {} ", esc(dp), if copied { "copied" } else { "not cloned" }));
                }
            }
            if let Some((i, why)) = compare_files(&sb, &c.base) {
                return fail("content", format!("exit 0 but file {} {}", i, why));
            }
        }
        if any_unsupported && out.ok() {
            return fail("unsupported-but-exit0", "--reflink=always, a clone request failed, but exit 0".to_string());
        }
        return Verdict::Pass;
    }
    // auto
    let all_unsupported_benign = matches!(c.answer, Answer::Real | Answer::Errno(libc::EOPNOTSUPP) | Answer::Errno(libc::EINVAL) | Answer::Errno(libc::EXDEV) | Answer::Errno(libc::ETXTBSY) | Answer::Errno(libc::ENOTTY) | Answer::Errno(libc::ENOSYS));
    if all_unsupported_benign && !out.ok() {
        return fail("no-fallback", format!("--reflink=auto with cloning unavailable ({}) must fall back to a copy, but exit {:?}", ans_name, out.code));
    }
    if out.ok() {
        if let Some((i, why)) = compare_files(&sb, &c.base) {
            return fail("content", format!("exit 0 but file {} {}", i, why));
        }
    }
    Verdict::Pass
}

impl Check for C15 {
    fn id(&self) -> &'static str {
        "C15"
    }
    fn level(&self) -> &'static str {
        "fault_enumeration"
    }
    fn rule(&self) -> String {
        "C01's generated trees of 1-5 regular files (empty, sparse, multi-block, with and without prior destination) x driver x --reflink auto|always|never|(absent) x the answer given to ioctl(FICLONE) by the ptrace supervisor: the real filesystem's (EOPNOTSUPP), an injected EOPNOTSUPP/EINVAL/EXDEV/ETXTBSY/ENOTTY/ENOSYS (the ioctl itself unknown to the filesystem or kernel), a hard EIO, emulated success for every request, or emulated success for a generated half of the requests; -v given 0-2 times, and in 30 % of the cases stdout is /dev/full so that every write of the logger fails. Oracle over the syscall log, exit status and bytes: never => no FICLONE at all; always => exit 0 only if every destination file has a successful clone and no data-copy call, and any failed clone request => exit != 0; auto => on each destination file the first clone attempt precedes the first data-copy call, unavailable cloning (EOPNOTSUPP/EINVAL/EXDEV/ETXTBSY/ENOTTY/ENOSYS/real) => exit 0, and exit 0 => bytes identical (also after emulated clones). Non-trivial: >= 1 non-empty file; distinct by case hash.".into()
    }
    fn assumptions(&self) -> Vec<String> {
        vec!["no reflink-capable filesystem in the sandbox: clone success is emulated at the ioctl boundary (supervisor copies the bytes and returns 0)".into()]
    }
    fn needs(&self) -> Needs {
        Needs { xcp: true, probe: false, fallback: false }
    }
    fn run_shard(&self, ctx: &Ctx, rec: &mut Rec) {
        let total = match ctx.tier {
            Tier::Quick => 5000,
            Tier::Thorough => 120000,
        };
        prop_loop(ctx, rec, "gen", strategy(), ctx.share(total), judge);
    }
    fn replay(&self, _ctx: &Ctx, _sub: &str, case: &Value) -> Verdict {
        match serde_json::from_value::<Case>(case.clone()) {
            Ok(c) => judge(&c, &mut Rec::default()),
            Err(e) => Verdict::Inconclusive(format!("bad case: {e}")),
        }
    }
    fn min_nontrivial(&self, tier: Tier) -> usize {
        match tier {
            Tier::Quick => 800,
            Tier::Thorough => 8000,
        }
    }
    fn required_classes(&self, _tier: Tier) -> Vec<String> {
        ["auto|", "always|", "never|", "default|", "emulated-ok", "emulated-some", "errno95", "errno22", "errno18", "errno25", "errno38", "errno5|", "|real|", "always|emulated-ok|parblock|", "always|emulated-ok|parfile|", "verbose=2|stdout=/dev/full|auto", "verbose=2|stdout=/dev/full|always"].iter().map(|s| s.to_string()).collect()
    }
}
