//! C17 — --gitignore copies exactly the entries the root .gitignore does not exclude (oracle: git itself).

use super::tree::common_flags;
use super::{Check, Needs};
use crate::engine::*;
use crate::run::*;
use crate::sandbox::*;
use crate::spec::*;
use crate::util::*;
use proptest::prelude::*;
use serde::{Deserialize, Serialize};
use serde_json::{json, Value};
use std::collections::{BTreeMap, BTreeSet};
use std::io::Write;
use std::process::{Command, Stdio};

pub struct C17;

pub const GNAMES: &[&str] = &["a", "b", "ab", "abc", "x.txt", "y.txt", "z.log", "build", "out", ".hid", "tmp", "k.rs"];

#[derive(Clone, Debug, Serialize, Deserialize)]
pub struct TEnt {
    pub parent: u16,
    pub name: u8,
    /// 0 file, 1 dir, 2 symlink to a file, 3 symlink to a directory, 4 empty dir
    pub kind: u8,
}

#[derive(Clone, Debug, Serialize, Deserialize)]
pub struct Pat {
    /// 0 literal, 1 *.ext, 2 prefix*, 3 ?, 4 **/n, 5 n/**, 6 n/, 7 /n, 8 dir/n, 9 comment, 10 blank, 11 n? , 12 *suffix
    pub kind: u8,
    pub name: u8,
    pub name2: u8,
    pub negate: bool,
    /// use a name that does not occur in the tree
    pub absent: bool,
}

#[derive(Clone, Debug, Serialize, Deserialize)]
pub struct Case {
    pub tree: Vec<TEnt>,
    pub pats: Vec<Pat>,
    pub flags: (bool, u8, Option<u64>),
    pub use_flag: bool,
    pub links: bool,
    /// name of the source directory (index into GNAMES): entries named like the source itself occur
    #[serde(default)]
    pub src_name: u8,
    /// optional second source directory with its own tree and .gitignore
    #[serde(default)]
    pub second: Option<(Vec<TEnt>, Vec<Pat>)>,
    /// also pass -L; only effective for trees without any symbolic link, where it must not change the outcome
    #[serde(default)]
    pub deref: bool,
    /// the first stat (0) / open (1) / read (2) of the first source's .gitignore fails with EIO or EACCES: the
    /// run must fail, or the filter still be right - an unreadable ignore file must not silently mean "no rules"
    #[serde(default)]
    pub ignore_fault: Option<(u8, bool)>,
    /// spelling of the source arguments: 0 name, 1 name//, 2 ./name, 3 name/  (same mapping, same verdicts)
    #[serde(default)]
    pub src_spell: u8,
}

pub fn strategy() -> BoxedStrategy<Case> {
    let tent = (any::<u16>(), 0..GNAMES.len() as u8, prop_oneof![6 => Just(0u8), 3 => Just(1u8), 1 => Just(2u8), 1 => Just(3u8), 1 => Just(4u8)]).prop_map(|(parent, name, kind)| TEnt { parent, name, kind });
    let pat = (
        prop_oneof![4 => Just(0u8), 2 => Just(1u8), 2 => Just(2u8), 1 => Just(3u8), 2 => Just(4u8), 2 => Just(5u8), 3 => Just(6u8), 2 => Just(7u8), 2 => Just(8u8), 1 => Just(9u8), 1 => Just(10u8), 1 => Just(11u8), 1 => Just(12u8)],
        0..GNAMES.len() as u8,
        0..GNAMES.len() as u8,
        prop::bool::weighted(0.2),
        prop::bool::weighted(0.1),
    )
        .prop_map(|(kind, name, name2, negate, absent)| Pat { kind, name, name2, negate, absent });
    (
        prop::collection::vec(tent.clone(), 3..22),
        prop::collection::vec(pat.clone(), 1..9),
        common_flags(),
        prop::bool::weighted(0.85),
        prop::bool::weighted(0.6),
        0..GNAMES.len() as u8,
        prop::option::weighted(0.3, (prop::collection::vec(tent, 2..12), prop::collection::vec(pat, 0..6))),
        prop::bool::weighted(0.4),
        prop::option::weighted(0.15, (0u8..3, any::<bool>())),
        prop_oneof![3 => Just(0u8), 1 => Just(1u8), 1 => Just(2u8), 1 => Just(3u8)],
    )
        .prop_map(|(tree, pats, flags, use_flag, links, src_name, second, deref, ignore_fault, src_spell)| Case { tree, pats, flags, use_flag, links, src_name, second, deref, ignore_fault, src_spell })
        .boxed()
}

pub fn pattern_text(p: &Pat) -> String {
    let n = if p.absent { "nope" } else { GNAMES[p.name as usize % GNAMES.len()] };
    let n2 = GNAMES[p.name2 as usize % GNAMES.len()];
    let ext = n.rsplit('.').next().unwrap_or("txt");
    let body = match p.kind % 13 {
        0 => n.to_string(),
        1 => format!("*.{}", if n.contains('.') && !n.starts_with('.') { ext } else { "txt" }),
        2 => format!("{}*", &n[..1]),
        3 => "?".to_string(),
        4 => format!("**/{}", n),
        5 => format!("{}/**", n),
        6 => format!("{}/", n),
        7 => format!("/{}", n),
        8 => format!("{}/{}", n2, n),
        9 => return "# a comment".to_string(),
        10 => return String::new(),
        11 => format!("{}?", &n[..1]),
        _ => format!("*{}", &n[n.len() - 1..]),
    };
    // never match the .gitignore file itself (outside the generated domain)
    if p.negate {
        format!("!{}", body)
    } else {
        body
    }
}

fn matches_gitignore_file(pt: &str) -> bool {
    // conservative textual test for the few generated shapes that could match ".gitignore"
    let b = pt.trim_start_matches('!');
    matches!(b, "?" | ".*" | "*e" | ".?") || b == "**/.gitignore" || b == ".gitignore" || b.starts_with(".g")
}

/// entries of one source directory `dir` (relative to the sandbox root) and the text of its .gitignore
pub fn build_src(dir: &[u8], tree: &[TEnt], pats: &[Pat], links: bool) -> (Vec<Ent>, String) {
    let mut ents = vec![Ent::dir(dir)];
    let mut dirs: Vec<(Vec<u8>, usize)> = vec![(dir.to_vec(), 0)];
    let mut used: BTreeSet<Vec<u8>> = BTreeSet::new();
    for (i, t) in tree.iter().enumerate() {
        let (dp, depth) = dirs[monotonic_index(t.parent, dirs.len())].clone();
        let (dp, depth) = if depth >= 3 { (dir.to_vec(), 0) } else { (dp, depth) };
        let name = GNAMES[t.name as usize % GNAMES.len()].as_bytes().to_vec();
        let path = join(&dp, &name);
        if used.contains(&path) {
            continue;
        }
        used.insert(path.clone());
        let up = "../".repeat(depth + 1);
        let kind = if links { t.kind % 5 } else { [0, 1, 0, 1, 4][t.kind as usize % 5] };
        match kind {
            0 => ents.push(Ent::file(&path, Content::data(10 + i as u64, i as u8))),
            1 => {
                ents.push(Ent::dir(&path));
                dirs.push((path, depth + 1));
            }
            2 => ents.push(Ent::link(&path, format!("{}by/keep", up).as_bytes())),
            3 => ents.push(Ent::link(&path, format!("{}by/sub", up).as_bytes())),
            _ => ents.push(Ent::dir(&path)),
        }
    }
    let mut text = String::new();
    for p in pats {
        let t = pattern_text(p);
        if matches_gitignore_file(&t) {
            continue;
        }
        text.push_str(&t);
        text.push('\n');
    }
    (ents, text)
}

/// (source directory name, entries, .gitignore text) per source; plus the common entries
pub fn build(c: &Case) -> (Vec<Ent>, Vec<(Vec<u8>, String)>) {
    let mut ents = vec![Ent::dir(b"d"), Ent::dir(b"by"), Ent::file(b"by/keep", Content::data(3, 1)), Ent::dir(b"by/sub"), Ent::file(b"by/sub/deep", Content::data(4, 2))];
    let n1 = GNAMES[c.src_name as usize % GNAMES.len()].as_bytes().to_vec();
    let mut srcs = vec![];
    let (e1, t1) = build_src(&n1, &c.tree, &c.pats, c.links);
    ents.extend(e1);
    srcs.push((n1, t1));
    if let Some((tree2, pats2)) = &c.second {
        let n2 = GNAMES[(c.src_name as usize + 5) % GNAMES.len()].as_bytes().to_vec();
        let (e2, t2) = build_src(&n2, tree2, pats2, c.links);
        ents.extend(e2);
        srcs.push((n2, t2));
    }
    (ents, srcs)
}

fn git_cmd(gitdir: &std::path::Path, worktree: &std::path::Path) -> Command {
    let mut c = Command::new("git");
    c.env_clear()
        .env("PATH", "/usr/bin:/bin:/usr/local/bin")
        .env("HOME", "/nonexistent")
        .env("GIT_CONFIG_NOSYSTEM", "1")
        .env("GIT_CONFIG_GLOBAL", "/dev/null")
        .env("LC_ALL", "C")
        .arg("-c")
        .arg("core.excludesFile=/dev/null")
        .arg("-c")
        .arg("core.quotePath=false")
        .arg(format!("--git-dir={}", gitdir.display()))
        .arg(format!("--work-tree={}", worktree.display()))
        .current_dir(worktree);
    c
}

/// git's verdict for each path (relative to the work tree): true = ignored
pub fn git_ignored(gitdir: &std::path::Path, worktree: &std::path::Path, paths: &[Vec<u8>]) -> Result<BTreeMap<Vec<u8>, bool>, String> {
    let mut child = git_cmd(gitdir, worktree)
        .args(["check-ignore", "--no-index", "-v", "-n", "-z", "--stdin"])
        .stdin(Stdio::piped())
        .stdout(Stdio::piped())
        .stderr(Stdio::piped())
        .spawn()
        .map_err(|e| format!("git: {e}"))?;
    {
        let mut si = child.stdin.take().unwrap();
        for p in paths {
            si.write_all(p).map_err(|e| e.to_string())?;
            si.write_all(b"\0").map_err(|e| e.to_string())?;
        }
    }
    let out = child.wait_with_output().map_err(|e| e.to_string())?;
    // exit 0: some ignored; 1: none ignored; 128: fatal
    if out.status.code().unwrap_or(128) > 1 {
        return Err(format!("git check-ignore failed: {}", String::from_utf8_lossy(&out.stderr)));
    }
    let fields: Vec<&[u8]> = out.stdout.split(|b| *b == 0).collect();
    let mut res = BTreeMap::new();
    let mut i = 0;
    while i + 3 < fields.len() {
        let (source, _line, pattern, path) = (fields[i], fields[i + 1], fields[i + 2], fields[i + 3]);
        let ignored = !source.is_empty() && !pattern.starts_with(b"!");
        res.insert(path.to_vec(), ignored);
        i += 4;
    }
    Ok(res)
}

/// second, independent query: untracked files that are not ignored
pub fn git_untracked_unignored(gitdir: &std::path::Path, worktree: &std::path::Path) -> Result<BTreeSet<Vec<u8>>, String> {
    let out = git_cmd(gitdir, worktree).args(["ls-files", "--others", "--exclude-standard", "-z"]).output().map_err(|e| e.to_string())?;
    if !out.status.success() {
        return Err(format!("git ls-files failed: {}", String::from_utf8_lossy(&out.stderr)));
    }
    Ok(out.stdout.split(|b| *b == 0).filter(|p| !p.is_empty()).map(|p| p.to_vec()).collect())
}

pub fn judge(c: &Case, rec: &mut Rec) -> Verdict {
    let sb = match Sandbox::new() {
        Ok(s) => s,
        Err(e) => return Verdict::Inconclusive(format!("sandbox: {e}")),
    };
    let (ents, srcs) = build(c);
    if let Err(e) = materialise(&sb.root, &ents) {
        return Verdict::Inconclusive(format!("materialise: {e}"));
    }
    for (dir, text) in &srcs {
        // a source without patterns has no .gitignore at all (the matcher must cope with that too)
        if !text.is_empty() && write_file(&sb.abs(&join(dir, b".gitignore")), text.as_bytes()).is_err() {
            return Verdict::Inconclusive("write .gitignore".into());
        }
    }
    let pre = match snapshot(&sb.root) {
        Ok(s) => s,
        Err(e) => return Verdict::Inconclusive(format!("snapshot: {e}")),
    };
    let gitdir = sb.out.join("oracle.git");
    let init = Command::new("git").env_clear().env("PATH", "/usr/bin:/bin").env("HOME", "/nonexistent").env("GIT_CONFIG_NOSYSTEM", "1").args(["init", "--bare", "-q"]).arg(&gitdir).output();
    if !init.map(|o| o.status.success()).unwrap_or(false) {
        return Verdict::Inconclusive("git init failed".into());
    }
    // ---- git oracle, per source directory (each is its own work tree with its own root .gitignore)
    let mut all_rels: Vec<Vec<u8>> = vec![]; // relative to the destination: <srcdir>/<rel>
    let mut excluded: BTreeSet<Vec<u8>> = BTreeSet::new();
    for (dir, _) in &srcs {
        let mut pfx = dir.clone();
        pfx.push(b'/');
        let rels: Vec<Vec<u8>> = pre.keys().filter(|p| p.starts_with(&pfx)).map(|p| p[pfx.len()..].to_vec()).collect();
        let src_abs = sb.abs(dir);
        let verdicts = match git_ignored(&gitdir, &src_abs, &rels) {
            Ok(v) => v,
            Err(e) => {
                rec.count("git_oracle_errors", 1);
                return Verdict::Inconclusive(e);
            }
        };
        let mut ex_here: BTreeSet<Vec<u8>> = BTreeSet::new();
        for r in &rels {
            let mut p = r.clone();
            let mut ex = false;
            loop {
                if verdicts.get(&p).copied().unwrap_or(false) {
                    ex = true;
                    break;
                }
                let par = parent(&p).to_vec();
                if par.is_empty() {
                    break;
                }
                p = par;
            }
            if ex {
                ex_here.insert(r.clone());
            }
        }
        match git_untracked_unignored(&gitdir, &src_abs) {
            Ok(listed) => {
                for r in &rels {
                    let m = &pre[&join(dir, r)];
                    if m.kind == K::D {
                        continue;
                    }
                    if listed.contains(r) == ex_here.contains(r) {
                        rec.count("git_disagrees_with_itself_dropped", 1);
                        return Verdict::Pass;
                    }
                }
            }
            Err(e) => return Verdict::Inconclusive(e),
        }
        for r in rels {
            let full = join(dir, &r);
            if ex_here.contains(&r) {
                excluded.insert(full.clone());
            }
            all_rels.push(full);
        }
    }
    // ---- run xcp
    let s = |x: &str| x.as_bytes().to_vec();
    let mut args = vec![s("--driver"), s(if c.flags.0 { "parblock" } else { "parfile" }), s("--workers"), c.flags.1.to_string().into_bytes()];
    if c.use_flag {
        args.push(s("--gitignore"));
    }
    let deref = c.deref && !pre.values().any(|m| m.kind == K::L);
    if deref {
        args.push(s("-L"));
        rec.class(format!("dereference-on-a-link-free-tree|flag={}", c.use_flag));
    }
    args.push(s("-r"));
    for (dir, _) in &srcs {
        args.push(match c.src_spell % 4 {
            1 => [dir.as_slice(), b"//"].concat(),
            2 => [b"./".as_slice(), dir.as_slice()].concat(),
            3 => [dir.as_slice(), b"/"].concat(),
            _ => dir.clone(),
        });
    }
    if c.src_spell % 4 != 0 {
        rec.class(format!("source-spelling|{}", ["name", "name//", "./name", "name/"][c.src_spell as usize % 4]));
    }
    args.push(s("d"));
    struct Out {
        okf: bool,
        code: Option<i32>,
        timed_out: bool,
        stderr: String,
    }
    impl Out {
        fn ok(&self) -> bool {
            self.okf
        }
        fn stderr_s(&self) -> String {
            self.stderr.clone()
        }
    }
    let fault = match c.ignore_fault {
        Some(f) if c.use_flag && !srcs[0].1.is_empty() => Some(f),
        _ => None,
    };
    let out = if let Some((which, eio)) = fault {
        use crate::sup::*;
        let sys = [Sys::Stat, Sys::Open, Sys::Read][which as usize % 3];
        let rule = Rule { sys: vec![sys], path: PathSel::Exact(join(&sb.rootb(), &join(&srcs[0].0, b".gitignore"))), nth: Nth::Kth(0), action: Action::Errno(if eio { libc::EIO } else { libc::EACCES }) };
        let o = Sup::run(super::c06::sup_spec(&sb, args.clone(), vec![rule], Sched::free()));
        if o.setup_error.is_some() {
            return Verdict::Inconclusive(format!("supervisor {:?}", o.setup_error));
        }
        rec.class(format!("ignore-file-fault|{:?}|fired={}|exit={}", sys, o.fired.iter().sum::<usize>() > 0, if o.ok() { "0" } else { "!0" }));
        Out { okf: o.ok(), code: o.code, timed_out: o.timed_out, stderr: o.stderr_s() }
    } else {
        let o = run_plain(&RunSpec::xcp(args.clone(), &sb.root, &sb.out));
        Out { okf: o.ok(), code: o.code, timed_out: o.timed_out, stderr: o.stderr_s() }
    };
    rec.eval(1);
    if out.timed_out {
        return Verdict::Inconclusive("watchdog".into());
    }
    let argv_s: Vec<String> = args.iter().map(|a| esc(a)).collect();
    let all_text: String = srcs.iter().map(|(_, t)| t.clone()).collect::<Vec<_>>().join("");
    let feats: BTreeSet<&str> = all_text
        .lines()
        .map(|l| {
            let b = l.trim_start_matches('!');
            if l.starts_with('#') { "comment" } else if l.is_empty() { "blank" } else if b.starts_with("**/") { "**/" } else if b.ends_with("/**") { "/**" } else if b.ends_with('/') { "dir-only" } else if b.starts_with('/') { "anchored" } else if b.contains('/') { "path" } else if b.contains('*') { "star" } else if b.contains('?') { "qmark" } else { "literal" }
        })
        .collect();
    let has_neg = all_text.lines().any(|l| l.starts_with('!'));
    let driver = if c.flags.0 { "parblock" } else { "parfile" };
    // does an entry named like its own source directory occur (root-stripping corner)?
    let self_named = srcs.iter().any(|(dir, _)| all_rels.iter().any(|r| r.starts_with(&join(dir, dir)) ));
    let key = format!("{}|flag={}|neg={}|links={}|srcs={}|{}|exit={}", driver, c.use_flag, has_neg, c.links, srcs.len(), feats.iter().cloned().collect::<Vec<_>>().join(","), if out.ok() { "0" } else { "!0" });
    let new = rec.class(key);
    for f in &feats {
        rec.class(format!("feature|{}", f));
    }
    if self_named {
        rec.class("entry-named-like-its-source");
    }
    if !out.ok() {
        rec.count("exit_nonzero", 1);
        return Verdict::Pass;
    }
    let post = match snapshot(&sb.root) {
        Ok(s) => s,
        Err(e) => return Verdict::Inconclusive(format!("snapshot: {e}")),
    };
    let srcdirs: BTreeSet<Vec<u8>> = srcs.iter().map(|(d, _)| join(b"d", d)).collect();
    let copied: BTreeSet<Vec<u8>> = post.keys().filter(|p| p.starts_with(b"d/") && !srcdirs.contains(*p)).map(|p| p[2..].to_vec()).collect();
    let expected: BTreeSet<Vec<u8>> = if c.use_flag { all_rels.iter().filter(|r| !excluded.contains(*r)).cloned().collect() } else { all_rels.iter().cloned().collect() };
    if !excluded.is_empty() && excluded.len() < all_rels.len() && c.use_flag {
        rec.nontrivial(case_hash(c));
    }
    let gi_json: Vec<Value> = srcs.iter().map(|(d, t)| json!({"source": esc(d), "gitignore": t.lines().collect::<Vec<_>>()})).collect();
    if new {
        rec.sample(json!({"argv": argv_s, "sources": gi_json, "entries": all_rels.len(), "excluded_by_git": excluded.iter().take(8).map(|p| esc(p)).collect::<Vec<_>>(), "copied": copied.len()}));
    }
    if copied == expected {
        return Verdict::Pass;
    }
    let wrongly_copied: Vec<String> = copied.difference(&expected).take(5).map(|p| esc(p)).collect();
    let wrongly_skipped: Vec<String> = expected.difference(&copied).take(5).map(|p| esc(p)).collect();
    let first = expected.symmetric_difference(&copied).next().cloned().unwrap_or_default();
    let fm = pre.get(&first);
    let link_dir = fm.map(|m| m.kind == K::L).unwrap_or(false) && feats.contains("dir-only");
    Verdict::faild(
        format!("C17|{}|{}{}", if c.use_flag { "with-flag" } else { "without-flag" }, if !wrongly_copied.is_empty() { "excluded-entry-copied" } else { "entry-wrongly-skipped" }, if link_dir { "|symlink-vs-dir-only-pattern" } else { "" }),
        format!("copied set differs from git's verdict: wrongly copied {:?}, wrongly skipped {:?}", wrongly_copied, wrongly_skipped),
        json!({"argv": argv_s, "sources": gi_json, "tree": all_rels.iter().map(|r| format!("{} {:?}", esc(r), pre[r].kind)).collect::<Vec<_>>()}),
    )
}

impl Check for C17 {
    fn id(&self) -> &'static str {
        "C17"
    }
    fn rule(&self) -> String {
        "proptest-generated source trees (3-21 entries over 12 names: files, directories incl. empty ones, hidden names, symlinks to files and to directories, depth <= 3) with a root .gitignore of 1-8 lines from a grammar instantiated over names that occur in the tree (and one that does not): literal, *.ext, prefix*, *suffix, ?, n?, **/n, n/**, n/ (directory only), /n (anchored), dir/n, each optionally negated with !, comments and blank lines (never a pattern matching .gitignore itself, no nested .gitignore); optionally a second source directory with its own tree and .gitignore; source directories named from the same name pool (so entries named like their source occur); both drivers; with and (15%) without --gitignore; source arguments spelled name, name//, ./name or name/; on trees without any symbolic link additionally (40%) with -L, which must not change the outcome; in a seventh of the cases the first stat / open / read of the first source's .gitignore fails with EIO or EACCES (the run must fail, or the filter still be right). Oracle: git itself - `git check-ignore --no-index -v -n -z --stdin` on a throw-away bare git-dir with the source as work tree gives the verdict per entry (excluded iff the entry or an ancestor matches a non-negated last pattern), cross-checked against `git ls-files --others --exclude-standard` (a case where git disagrees with itself is dropped and counted); exit 0 => the set of relative paths in the destination equals the non-excluded set (everything without the flag). Non-trivial: flag on, >=1 entry excluded and >=1 copied; distinct by case hash.".into()
    }
    fn assumptions(&self) -> Vec<String> {
        vec!["git 2.39 semantics are the reference for 'git's pattern semantics'".into()]
    }
    fn needs(&self) -> Needs {
        Needs { xcp: true, probe: false, fallback: false }
    }
    fn run_shard(&self, ctx: &Ctx, rec: &mut Rec) {
        let total = match ctx.tier {
            Tier::Quick => 4000,
            Tier::Thorough => 90000,
        };
        prop_loop(ctx, rec, "gen", strategy(), ctx.share(total), judge);
    }
    fn replay(&self, _ctx: &Ctx, _sub: &str, case: &Value) -> Verdict {
        match serde_json::from_value::<Case>(case.clone()) {
            Ok(c) => judge(&c, &mut Rec::default()),
            Err(e) => Verdict::Inconclusive(format!("bad case: {e}")),
        }
    }
    fn min_nontrivial(&self, tier: Tier) -> usize {
        match tier {
            Tier::Quick => 500,
            Tier::Thorough => 5000,
        }
    }
    fn required_classes(&self, _tier: Tier) -> Vec<String> {
        ["feature|literal", "feature|star", "feature|qmark", "feature|**/", "feature|/**", "feature|dir-only", "feature|anchored", "feature|path", "neg=true", "flag=false", "links=true", "srcs=2", "entry-named-like-its-source", "dereference-on-a-link-free-tree|flag=true", "ignore-file-fault|Open|fired=true", "ignore-file-fault|Read|fired=true", "ignore-file-fault|Stat|fired=true", "source-spelling|name//", "source-spelling|./name"].iter().map(|s| s.to_string()).collect()
    }
}
