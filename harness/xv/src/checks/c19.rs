//! C19 — libfs sparse maps never hide data: every byte outside reported ranges is zero; merging never
//! drops coverage.

use super::{Check, Needs};
use crate::engine::*;
use crate::run::*;
use crate::sandbox::*;
use crate::spec::*;
use crate::util::*;
use proptest::prelude::*;
use serde::{Deserialize, Serialize};
use serde_json::{json, Value};
use std::path::PathBuf;

pub struct C19;

// ------------------------------------------------------------------ (a) file layouts

#[derive(Clone, Debug, Serialize, Deserialize)]
pub struct FileCase {
    /// (data length, following hole length in 4 KiB blocks, skew of the hole length in bytes)
    pub segs: Vec<(u32, u8, u16)>,
    pub lead_hole_blocks: u8,
    pub trailing_hole: bool,
    pub sync: bool,
    /// append this many explicit zero bytes after the last segment (allocated zeros)
    pub zero_tail: u16,
    /// every n-th data segment lives at the start of a preallocated (fallocate) range twice its size
    #[serde(default)]
    pub prealloc_every: u8,
    /// the k-th lseek(SEEK_DATA/SEEK_HOLE) / FIEMAP call of the probe fails with EINVAL / EIO / EOPNOTSUPP (never
    /// ENXIO, which is itself the answer "no more data"): an error may be returned, data may not be hidden
    #[serde(default)]
    pub fault: Option<(u8, u8)>,
}

pub fn file_strategy() -> BoxedStrategy<FileCase> {
    let seg = (prop_oneof![3 => 1u32..300, 3 => 300u32..5000, 2 => 4096u32..65536, 1 => Just(4096u32), 1 => Just(8192u32)], prop_oneof![4 => 1u8..4, 2 => 4u8..40, 1 => 40u8..255], prop_oneof![2 => Just(0u16), 1 => 1u16..4096]);
    let n = prop_oneof![1 => 0usize..1, 2 => 1usize..2, 5 => 2usize..33, 3 => 33usize..101];
    (n.prop_flat_map(move |k| prop::collection::vec(seg.clone(), k..=k)), prop_oneof![2 => Just(0u8), 1 => 1u8..30], any::<bool>(), any::<bool>(), prop_oneof![3 => Just(0u16), 1 => 1u16..9000], prop_oneof![3 => Just(0u8), 1 => Just(1u8), 1 => 2u8..5], prop::option::weighted(0.2, (0u8..6, 0u8..3)))
        .prop_map(|(segs, lead_hole_blocks, trailing_hole, sync, zero_tail, prealloc_every, fault)| FileCase { segs, lead_hole_blocks, trailing_hole, sync, zero_tail, prealloc_every, fault })
        .boxed()
}

pub fn file_content(c: &FileCase) -> Content {
    let mut segs = vec![];
    if c.lead_hole_blocks > 0 {
        segs.push(Seg::Hole(c.lead_hole_blocks as u64 * 4096));
    }
    let n = c.segs.len();
    for (i, (dl, hb, skew)) in c.segs.iter().enumerate() {
        if c.prealloc_every > 0 && i % c.prealloc_every as usize == 0 {
            segs.push(Seg::PreData(*dl as u64 * 2 + 4096, *dl as u64, (i % 200) as u8));
        } else {
            segs.push(Seg::Data(*dl as u64, (i % 200) as u8));
        }
        if i + 1 < n || c.trailing_hole {
            segs.push(Seg::Hole(*hb as u64 * 4096 + *skew as u64));
        }
    }
    if c.zero_tail > 0 {
        segs.push(Seg::Zero(c.zero_tail as u64));
    }
    if segs.is_empty() {
        segs.push(Seg::Hole(3 * 4096 + 17));
    }
    Content { segs, sync: c.sync }
}

fn probe_spec(sb: &Sandbox, args: &[&str], stdin: Option<Vec<u8>>) -> RunSpec {
    let mut s = RunSpec::xcp(args.iter().map(|a| a.as_bytes().to_vec()).collect(), &sb.root, &sb.out);
    s.bin = PathBuf::from(PROBE_BIN);
    s.timeout = std::time::Duration::from_secs(20);
    s.as_limit = Some(2 << 30);
    s.stdin_data = stdin;
    s
}

/// ranges ordered and pairwise non-overlapping; every non-zero byte of the file inside some range
fn check_ranges(what: &str, ranges: &[(u64, u64)], file: &[u8]) -> Option<(String, String)> {
    for r in ranges {
        if r.0 > r.1 {
            return Some((format!("{}|inverted-range", what), format!("{} reports an inverted range {:?}", what, r)));
        }
    }
    for w in ranges.windows(2) {
        if w[0].1 > w[1].0 || w[0].0 > w[1].0 {
            return Some((format!("{}|unordered-or-overlapping", what), format!("{} ranges not ordered/disjoint: {:?} then {:?}", what, w[0], w[1])));
        }
    }
    let mut ri = 0usize;
    for (off, b) in file.iter().enumerate() {
        if *b == 0 {
            continue;
        }
        let off = off as u64;
        while ri < ranges.len() && ranges[ri].1 <= off {
            ri += 1;
        }
        if ri >= ranges.len() || off < ranges[ri].0 {
            return Some((format!("{}|data-outside-ranges", what), format!("{}: non-zero byte at offset {} (of {}) lies outside every reported range", what, off, file.len())));
        }
    }
    None
}

fn pairs(v: &Value) -> Option<Vec<(u64, u64)>> {
    v.as_array().map(|a| a.iter().filter_map(|x| Some((x.get(0)?.as_u64()?, x.get(1)?.as_u64()?))).collect())
}

pub fn judge_file(c: &FileCase, rec: &mut Rec) -> Verdict {
    let sb = match Sandbox::new() {
        Ok(s) => s,
        Err(e) => return Verdict::Inconclusive(format!("sandbox: {e}")),
    };
    let content = file_content(c);
    if let Err(e) = materialise(&sb.root, &[Ent::file(b"f", content.clone())]) {
        return Verdict::Inconclusive(format!("materialise: {e}"));
    }
    let (stdout, timed_out, signal) = if let Some((k, e)) = c.fault {
        use crate::sup::*;
        let errno = [libc::EINVAL, libc::EIO, libc::EOPNOTSUPP][e as usize % 3];
        let rule = Rule { sys: vec![Sys::Lseek, Sys::Fiemap], path: PathSel::Sandbox, nth: Nth::Kth(k as usize), action: Action::Errno(errno) };
        let mut spec = super::c06::sup_spec(&sb, vec![b"extents".to_vec(), b"f".to_vec()], vec![rule], Sched::free());
        spec.bin = PathBuf::from(PROBE_BIN);
        spec.timeout = std::time::Duration::from_secs(20);
        let o = Sup::run(spec);
        if o.setup_error.is_some() {
            return Verdict::Inconclusive(format!("supervisor {:?}", o.setup_error));
        }
        rec.class(format!("file|fault|errno{}|fired={}", errno, o.fired.iter().sum::<usize>() > 0));
        (o.stdout.clone(), o.timed_out, o.signal)
    } else {
        let out = run_plain(&probe_spec(&sb, &["extents", "f"], None));
        (out.stdout, out.timed_out, out.signal)
    };
    rec.eval(1);
    if timed_out {
        return Verdict::Inconclusive("probe watchdog (map/segment walk did not finish in 20 s)".into());
    }
    if signal.is_some() {
        return Verdict::Inconclusive(format!("probe died with signal {:?} (memory limit?)", signal));
    }
    let out_stdout = stdout;
    let v: Value = match serde_json::from_slice(&out_stdout) {
        Ok(v) => v,
        Err(e) => return Verdict::Inconclusive(format!("probe output: {e}: {}", String::from_utf8_lossy(&out_stdout).chars().take(200).collect::<String>())),
    };
    let file = match read_all(&sb.abs(b"f")) {
        Ok(f) => f,
        Err(e) => return Verdict::Inconclusive(format!("read: {e}")),
    };
    let ndata = content.segs.iter().filter(|s| matches!(s, Seg::Data(..) | Seg::PreData(..))).count();
    let map = v.get("map_extents").and_then(pairs);
    let merged = v.get("merged").and_then(pairs);
    let segs = v.get("segments").and_then(pairs).unwrap_or_default();
    let next = map.as_ref().map(|m| m.len()).unwrap_or(0);
    let aligned = c.segs.iter().all(|s| s.2 == 0 && s.0 % 4096 == 0);
    let key = format!(
        "file|extents={}|{}|{}|{}|{}",
        match next { 0 => "0", 1 => "1", 2..=32 => "2-32", _ => ">32" },
        if aligned { "aligned" } else { "unaligned" },
        if c.trailing_hole { "tail-hole" } else if c.zero_tail > 0 { "tail-zeros" } else { "tail-data" },
        if c.lead_hole_blocks > 0 { "lead-hole" } else { "data-at-0" },
        if c.sync { "synced" } else { "delalloc" }
    ) + if c.prealloc_every > 0 { "|prealloc" } else { "" };
    let new = rec.class(key);
    if next >= 2 || ndata >= 2 {
        rec.nontrivial(case_hash(c));
    }
    if new {
        rec.sample(json!({"len": file.len(), "data_segments": ndata, "map_extents": map.as_ref().map(|m| m.iter().take(5).collect::<Vec<_>>()), "n_extents": next, "segments_walk": segs.iter().take(5).collect::<Vec<_>>()}));
    }
    let det = json!({"content": content.segs.iter().take(12).collect::<Vec<_>>(), "probe": v});
    for e in ["map_error", "merge_error", "segments_error"] {
        if let Some(m) = v.get(e).and_then(|x| x.as_str()) {
            // an error return is not a wrong map; EOPNOTSUPP etc. would show here
            rec.count("probe_api_errors", 1);
            if e == "segments_error" && m.contains("no progress") {
                return Verdict::faild("C19|segments|no-progress", format!("segment walk makes no progress: {}", m), det);
            }
        }
    }
    if let Some(m) = &map {
        if let Some((sig, msg)) = check_ranges("map_extents", m, &file) {
            return Verdict::faild(format!("C19|{}", sig), msg, det);
        }
    }
    if let Some(m) = &merged {
        if let Some((sig, msg)) = check_ranges("merge_extents(map_extents)", m, &file) {
            return Verdict::faild(format!("C19|{}", sig), msg, det);
        }
    }
    if v.get("segments_error").map(|x| x.is_null()).unwrap_or(true) {
        if let Some((sig, msg)) = check_ranges("next_sparse_segments", &segs, &file) {
            return Verdict::faild(format!("C19|{}", sig), msg, det);
        }
    }
    Verdict::Pass
}

// ------------------------------------------------------------------ (b) merge laws on generated lists

#[derive(Clone, Debug, Serialize, Deserialize)]
pub struct ListCase {
    /// (gap before this extent, length); gap 0 = touching
    pub items: Vec<(u64, u64)>,
    pub base: u64,
    /// per item: start this many bytes before the end of the previous extent (overlap / nesting), never
    /// before the previous start (the list stays sorted by start)
    #[serde(default)]
    pub backs: Vec<u64>,
}

pub fn list_strategy() -> BoxedStrategy<ListCase> {
    let gap = prop_oneof![3 => Just(0u64), 3 => Just(1u64), 1 => Just(2u64), 2 => 2u64..10000, 1 => Just(4096u64), 1 => (1u64 << 32)..(1u64 << 40)];
    let len = prop_oneof![2 => Just(1u64), 2 => 1u64..100000, 1 => Just(4096u64), 1 => (1u64 << 30)..(1u64 << 36)];
    (prop::collection::vec((gap, len), 0..40), prop_oneof![3 => Just(0u64), 1 => 1u64..10000, 1 => Just(1u64 << 50)], prop_oneof![3 => Just(vec![]), 1 => prop::collection::vec(prop_oneof![2 => Just(0u64), 1 => 1u64..5000], 1..40)])
        .prop_map(|(items, base, backs)| ListCase { items, base, backs })
        .boxed()
}

pub fn list_of(c: &ListCase) -> Vec<(u64, u64)> {
    let mut v: Vec<(u64, u64)> = vec![];
    let mut pos = c.base;
    let mut prev_start = c.base;
    for (i, (g, l)) in c.items.iter().enumerate() {
        let back = c.backs.get(i).copied().unwrap_or(0);
        let s = if back > 0 { std::cmp::max(prev_start, pos.saturating_sub(back)) } else { pos + g };
        v.push((s, s + l));
        prev_start = s;
        pos = std::cmp::max(pos, s + l);
    }
    v
}

/// name of the violated law without the concrete numbers
fn law_kind(why: &str) -> String {
    why.split(' ').filter(|w| w.chars().all(|c| c.is_ascii_alphabetic() || c == '/')).take(5).collect::<Vec<_>>().join("-")
}

pub fn judge_list(c: &ListCase, rec: &mut Rec) -> Verdict {
    let sb = match Sandbox::new() {
        Ok(s) => s,
        Err(e) => return Verdict::Inconclusive(format!("sandbox: {e}")),
    };
    let input = list_of(c);
    let out = run_plain(&probe_spec(&sb, &["merge-list"], Some(serde_json::to_vec(&input).unwrap())));
    rec.eval(1);
    if out.timed_out || out.signal.is_some() {
        return Verdict::Inconclusive("probe watchdog/crash".into());
    }
    let v: Value = match serde_json::from_slice(&out.stdout) {
        Ok(v) => v,
        Err(e) => return Verdict::Inconclusive(format!("probe output: {e}")),
    };
    let touching = input.windows(2).filter(|w| w[1].0 == w[0].1).count();
    let onegap = input.windows(2).filter(|w| w[1].0 == w[0].1 + 1).count();
    if input.windows(2).any(|w| w[1].0 < w[0].1) {
        rec.class("list|overlapping-inputs");
    }
    rec.class(format!("list|n={}|touching={}|gap1={}", match input.len() { 0 => "0", 1 => "1", 2..=8 => "2-8", _ => "9+" }, std::cmp::min(touching, 2), std::cmp::min(onegap, 2)));
    if input.len() >= 2 && (touching > 0 || onegap > 0) {
        rec.nontrivial(case_hash(c));
    }
    if let Some(w) = v.get("law_violation").and_then(|x| x.as_str()) {
        let kind = law_kind(w);
        return Verdict::faild(format!("C19|merge|{}", kind), format!("merge_extents breaks a law: {}", w), json!({"input": input, "output": v.get("output")}));
    }
    if let Some(e) = v.get("error").and_then(|x| x.as_str()) {
        return Verdict::faild("C19|merge|error", format!("merge_extents failed on a valid list: {}", e), json!({"input": input}));
    }
    Verdict::Pass
}

/// decode libFuzzer bytes exactly like harness/fuzz/fuzz_targets/merge.rs does
pub fn decode_fuzz(data: &[u8]) -> ListCase {
    fn varint(data: &[u8], pos: &mut usize) -> Option<u64> {
        let c = *data.get(*pos)?;
        *pos += 1;
        let n = (c & 3) as usize;
        let mut v = (c >> 2) as u64;
        for _ in 0..n {
            let b = *data.get(*pos)?;
            *pos += 1;
            v = (v << 8) | b as u64;
        }
        Some(v)
    }
    let mut pos = 0;
    let mut items = vec![];
    while items.len() < 64 {
        let gap = match varint(data, &mut pos) { Some(v) => v, None => break };
        let len = match varint(data, &mut pos) { Some(v) => v + 1, None => break };
        items.push((gap, len));
    }
    ListCase { items, base: 0, backs: vec![] }
}

/// (c) coverage-guided campaign (thorough tier): libFuzzer with the merge laws inside the target
fn fuzz_campaign(ctx: &Ctx, rec: &mut Rec) {
    let corpus = format!("/verif/.build/fuzz-corpus-{}", std::process::id());
    let artifacts = format!("/verif/.build/fuzz-artifacts-{}/", std::process::id());
    let _ = std::fs::create_dir_all(&corpus);
    let _ = std::fs::create_dir_all(&artifacts);
    // a few seeds: empty, touching pair, 1-gap pair
    let _ = std::fs::write(format!("{}/seed0", corpus), b"");
    let _ = std::fs::write(format!("{}/seed1", corpus), [0u8, 4, 0, 4]);
    let _ = std::fs::write(format!("{}/seed2", corpus), [0u8, 4, 4, 4, 8, 0]);
    let runs = 2_000_000u64;
    let seed = (ctx.seed % 1_000_000) + 1; // 0 would mean "random" to libFuzzer
    let out = std::process::Command::new(crate::run::cargo_bin())
        .current_dir("/verif/harness")
        .env("CARGO_NET_OFFLINE", "true")
        .env("RUST_BACKTRACE", "0")
        .args(["+nightly", "fuzz", "run", "--target-dir", "/verif/.build/fuzz", "merge", &corpus, "--", &format!("-runs={}", runs), &format!("-seed={}", seed), "-max_len=256", "-len_control=0", &format!("-artifact_prefix={}", artifacts)])
        .output();
    match out {
        Err(e) => rec.inconclusive.push(format!("cargo fuzz could not be started: {e}")),
        Ok(o) => {
            let text = String::from_utf8_lossy(&o.stderr).to_string();
            if o.status.success() {
                rec.eval(runs);
                rec.count("libfuzzer_runs", runs as i64);
                rec.class("libfuzzer|completed");
            } else if text.contains("C19 merge law violated") || text.contains("merge_extents failed") {
                // turn the crashing input into a replayable case
                let crash = std::fs::read_dir(&artifacts).ok().and_then(|rd| rd.flatten().map(|e| e.path()).find(|p| p.file_name().map(|n| n.to_string_lossy().starts_with("crash-")).unwrap_or(false)));
                let bytes = crash.as_ref().and_then(|p| std::fs::read(p).ok()).unwrap_or_default();
                let lc = decode_fuzz(&bytes);
                match judge_list(&lc, &mut Rec::default()) {
                    Verdict::Fail(sig, reason, details) => {
                        if let Some(k) = ctx.is_known(&sig) {
                            *rec.known_hits.entry(format!("{}: {}", k.signature, k.what)).or_insert(0) += 1;
                        } else {
                            rec.failures.push(Failure { property: "C19".into(), sub: "fuzz".into(), signature: sig, reason: format!("libFuzzer: {}", reason), case: serde_json::to_value(&lc).unwrap(), details });
                        }
                    }
                    _ => rec.inconclusive.push(format!("libFuzzer crashed but the input does not reproduce through the probe: {}", text.lines().filter(|l| l.contains("panicked") || l.contains("C19")).take(3).collect::<Vec<_>>().join(" | "))),
                }
            } else {
                rec.inconclusive.push(format!("cargo fuzz failed (build or infrastructure): {}", text.lines().rev().take(5).collect::<Vec<_>>().join(" | ")));
            }
        }
    }
    let _ = std::fs::remove_dir_all(&corpus);
    let _ = std::fs::remove_dir_all(&artifacts);
}

impl Check for C19 {
    fn id(&self) -> &'static str {
        "C19"
    }
    fn rule(&self) -> String {
        "(a) proptest-generated files on ext4: 0-100 data segments (non-zero bytes) of 1 B..64 KiB at 4 KiB-aligned and unaligned offsets separated by holes of 1-254 fs blocks (+ skew), data at offset 0 or after a leading hole, data/hole/explicit zeros at EOF, lengths that are not block multiples, fsync'ed or delayed-allocation, data segments optionally inside preallocated (fallocate) ranges; an API probe linked against /repo/libfs prints map_extents, merge_extents(map_extents) and the next_sparse_segments walk; in a fifth of the cases the k-th lseek(SEEK_DATA/SEEK_HOLE)/FIEMAP call of the probe fails with EINVAL/EIO/EOPNOTSUPP (an error may be returned, data may not be hidden); oracle: ranges ordered and pairwise non-overlapping and every non-zero byte of the file (read back with plain read) inside some range. (b) merge_extents laws (every input inside one output; outputs start and end at input boundaries, ordered, disjoint; nothing added but gaps between inputs merged together) on proptest-generated sorted lists (touching, 1-byte gaps, offsets up to 2^50, optionally overlapping/nested: then only coverage and boundary laws), exhaustively on all lists of <=4 extents over 0..=7 sorted by start (overlaps allowed), and EXHAUSTIVELY on every sorted non-overlapping extent list over offsets 0..=U (quick U=14: 514229 lists; thorough U=19). (c) thorough: a libFuzzer target with the same laws inside. Non-trivial: (a) >=2 extents or data segments, (b) >=2 inputs with a touching or 1-gap pair; distinct by case hash (exhaustive lists counted by the probe).".into()
    }
    fn needs(&self) -> Needs {
        Needs { xcp: false, probe: true, fallback: false }
    }
    fn run_shard(&self, ctx: &Ctx, rec: &mut Rec) {
        let (nf, nl, u) = match ctx.tier {
            Tier::Quick => (3000, 1500, 14),
            Tier::Thorough => (40000, 20000, 19),
        };
        prop_loop(ctx, rec, "file", file_strategy(), ctx.share(nf), judge_file);
        prop_loop(ctx, rec, "list", list_strategy(), ctx.share(nl), judge_list);
        if ctx.tier == Tier::Thorough && ctx.shard == 1 % ctx.nshards {
            fuzz_campaign(ctx, rec);
        }
        if ctx.shard == 2 % ctx.nshards {
            if let Ok(sb) = Sandbox::new() {
                let (u, n) = if ctx.tier == Tier::Quick { (7u64, 4usize) } else { (9u64, 5usize) };
                let mut spec = probe_spec(&sb, &["merge-exhaustive-overlap", &u.to_string(), &n.to_string()], None);
                spec.timeout = std::time::Duration::from_secs(600);
                let out = run_plain(&spec);
                match serde_json::from_slice::<Value>(&out.stdout) {
                    Ok(v) => {
                        let lists = v.get("lists").and_then(|x| x.as_u64()).unwrap_or(0);
                        rec.eval(lists);
                        rec.count("exhaustive_overlap_lists", lists as i64);
                        rec.class(format!("exhaustive-overlap|U={}|n<={}", u, n));
                        if let Some(viol) = v.get("violation") {
                            if !viol.is_null() {
                                let sig = format!("C19|merge|{}", law_kind(viol.get("why").and_then(|w| w.as_str()).unwrap_or("")));
                                if let Some(k) = ctx.is_known(&sig) {
                                    *rec.known_hits.entry(format!("{}: {}", k.signature, k.what)).or_insert(0) += 1;
                                } else {
                                    // express as a ListCase: first extent by gap, the others by 'back'
                                    let input: Vec<(u64, u64)> = viol.get("input").and_then(pairs).unwrap_or_default();
                                    let mut items = vec![];
                                    let mut backs = vec![];
                                    let mut pos = 0u64;
                                    for (s, e) in &input {
                                        if *s >= pos {
                                            items.push((s - pos, e - s));
                                            backs.push(0);
                                        } else {
                                            items.push((0, e - s));
                                            backs.push(pos - s);
                                        }
                                        pos = std::cmp::max(pos, *e);
                                    }
                                    let lc = ListCase { items, base: 0, backs };
                                    rec.failures.push(Failure { property: "C19".into(), sub: "list".into(), signature: sig, reason: format!("exhaustive enumeration with overlaps (U={}): {}", u, viol), case: serde_json::to_value(&lc).unwrap(), details: viol.clone() });
                                }
                            }
                        }
                    }
                    Err(e) => rec.inconclusive.push(format!("exhaustive-overlap probe output: {e}")),
                }
            }
        }
        if ctx.shard == 0 {
            // exhaustive enumeration inside the probe (one process)
            if let Ok(sb) = Sandbox::new() {
                let mut spec = probe_spec(&sb, &["merge-exhaustive", &u.to_string()], None);
                spec.timeout = std::time::Duration::from_secs(600);
                let out = run_plain(&spec);
                match serde_json::from_slice::<Value>(&out.stdout) {
                    Ok(v) => {
                        let lists = v.get("lists").and_then(|x| x.as_u64()).unwrap_or(0);
                        let nt = v.get("nontrivial").and_then(|x| x.as_u64()).unwrap_or(0);
                        rec.eval(lists);
                        rec.count("exhaustive_universe", u as i64);
                        rec.count("exhaustive_lists", lists as i64);
                        rec.count("exhaustive_nontrivial_lists", nt as i64);
                        rec.class(format!("exhaustive|U={}", u));
                        if let Some(s) = v.get("samples") {
                            rec.sample(json!({"exhaustive_samples": s}));
                        }
                        if let Some(viol) = v.get("violation") {
                            if !viol.is_null() {
                                let input: Vec<(u64, u64)> = viol.get("input").and_then(pairs).unwrap_or_default();
                                // express the counterexample as a ListCase so that it replays through judge_list
                                let mut items = vec![];
                                let mut pos = 0u64;
                                for (s, e) in &input {
                                    items.push((s - pos, e - s));
                                    pos = *e;
                                }
                                let lc = ListCase { items, base: 0, backs: vec![] };
                                let sig = format!("C19|merge|{}", law_kind(viol.get("why").and_then(|w| w.as_str()).unwrap_or("")));
                                if let Some(k) = ctx.is_known(&sig) {
                                    *rec.known_hits.entry(format!("{}: {}", k.signature, k.what)).or_insert(0) += 1;
                                } else {
                                    rec.failures.push(Failure { property: "C19".into(), sub: "list".into(), signature: sig, reason: format!("exhaustive enumeration (U={}): {}", u, viol), case: serde_json::to_value(&lc).unwrap(), details: viol.clone() });
                                }
                            }
                        }
                    }
                    Err(e) => rec.inconclusive.push(format!("exhaustive probe output: {e} (timeout={})", out.timed_out)),
                }
            }
        }
    }
    fn replay(&self, _ctx: &Ctx, sub: &str, case: &Value) -> Verdict {
        if sub == "list" || sub == "fuzz" {
            match serde_json::from_value::<ListCase>(case.clone()) {
                Ok(c) => judge_list(&c, &mut Rec::default()),
                Err(e) => Verdict::Inconclusive(format!("bad case: {e}")),
            }
        } else {
            match serde_json::from_value::<FileCase>(case.clone()) {
                Ok(c) => judge_file(&c, &mut Rec::default()),
                Err(e) => Verdict::Inconclusive(format!("bad case: {e}")),
            }
        }
    }
    fn min_nontrivial(&self, tier: Tier) -> usize {
        match tier {
            Tier::Quick => 1500,
            Tier::Thorough => 15000,
        }
    }
    fn required_classes(&self, _tier: Tier) -> Vec<String> {
        ["extents=>32", "extents=2-32", "extents=1|", "unaligned", "tail-data", "tail-hole", "data-at-0", "synced", "delalloc", "delalloc|prealloc", "list|n=9+", "touching=2", "gap1=2", "exhaustive|", "list|overlapping-inputs", "exhaustive-overlap|", "file|fault|errno22|fired=true"].iter().map(|s| s.to_string()).collect()
    }
}
