//! C05 — correct under short I/O counts and absent kernel copy/clone/extent support.

use super::c01::{self, args_for, compare_files, ents_for, eff_block};
use super::gen;
use super::{Check, Needs};
use crate::engine::*;
use crate::run::*;
use crate::sandbox::*;
use crate::spec::*;
use crate::sup::*;
use crate::util::*;
use proptest::prelude::*;
use serde::{Deserialize, Serialize};
use serde_json::{json, Value};
use std::path::PathBuf;

pub struct C05;

#[derive(Clone, Copy, Debug, Serialize, Deserialize, PartialEq)]
pub enum ClampHow {
    One,
    To(u32),
    Rand,
    Minus1,
}

#[derive(Clone, Debug, Serialize, Deserialize, PartialEq)]
pub enum PlanKind {
    /// clamp copy_file_range calls with probability permille/1000
    ClampCfr(u32, ClampHow),
    /// make copy_file_range fail from the k-th call on (ENOSYS/EXDEV/EPERM => userspace fallback),
    /// and clamp the fallback's read/write/pread/pwrite calls with probability permille
    CfrUnsupported(i32, u8, u32, ClampHow),
    /// FICLONE answered with an 'unsupported' errno (EOPNOTSUPP/EINVAL/EXDEV)
    CloneUnsupported(i32),
    /// FIEMAP answered EOPNOTSUPP (whole-file copy expected)
    FiemapUnsupported,
    /// fallback path with one read() interrupted (EINTR) at the k-th read
    ReadEintr(u8),
    /// nothing injected: natural cross-filesystem copy ext4 -> tmpfs (EXDEV for clone and in-kernel copy)
    NaturalCrossFs,
    /// nothing injected: tmpfs -> tmpfs (no FIEMAP)
    NaturalTmpfs,
    /// the first copy_file_range call is cut short and the second one fails (EIO/ENOSPC): an error after partial
    /// progress must not turn into "done"
    ShortThenError(i32, ClampHow),
}

#[derive(Clone, Debug, Serialize, Deserialize)]
pub struct Case {
    pub base: c01::Case,
    pub plan: PlanKind,
    pub seed: u64,
}

fn clamp_how() -> BoxedStrategy<ClampHow> {
    prop_oneof![Just(ClampHow::One), (1u32..70000).prop_map(ClampHow::To), Just(ClampHow::Rand), Just(ClampHow::Minus1)].boxed()
}

fn permille() -> BoxedStrategy<u32> {
    prop_oneof![Just(50u32), Just(500), Just(1000)].boxed()
}

pub fn strategy() -> BoxedStrategy<Case> {
    let plan = prop_oneof![
        6 => (permille(), clamp_how()).prop_map(|(p, h)| PlanKind::ClampCfr(p, h)),
        6 => (prop_oneof![Just(libc::ENOSYS), Just(libc::EXDEV), Just(libc::EPERM)], prop_oneof![3 => Just(0u8), 1 => 1u8..4], prop_oneof![Just(0u32), Just(50), Just(500), Just(1000)], clamp_how())
            .prop_map(|(e, k, p, h)| PlanKind::CfrUnsupported(e, k, p, h)),
        2 => prop_oneof![Just(libc::EOPNOTSUPP), Just(libc::EINVAL), Just(libc::EXDEV)].prop_map(PlanKind::CloneUnsupported),
        2 => Just(PlanKind::FiemapUnsupported),
        1 => (0u8..4).prop_map(PlanKind::ReadEintr),
        2 => (prop_oneof![Just(libc::EIO), Just(libc::ENOSPC)], clamp_how()).prop_map(|(e, h)| PlanKind::ShortThenError(e, h)),
        1 => Just(PlanKind::NaturalCrossFs),
        1 => Just(PlanKind::NaturalTmpfs),
    ];
    (c01::strategy(), plan, any::<u64>())
        .prop_map(|(mut base, plan, seed)| {
            // keep supervised runs short: bound the number of blocks (every block is >= 2 traced calls)
            let b = eff_block(&base);
            // a clamp to n bytes at probability p makes about len/n*p calls: bound that as well
            let clamp_cap = |pm: u32, h: ClampHow| -> u64 {
                if pm == 0 {
                    return u64::MAX;
                }
                let per = match h {
                    ClampHow::One => 1u64,
                    ClampHow::To(n) => n as u64,
                    _ => return u64::MAX,
                };
                per.saturating_mul(400).saturating_mul(1000) / pm as u64
            };
            let cap2 = match &plan {
                PlanKind::ClampCfr(pm, h) => clamp_cap(*pm, *h),
                PlanKind::CfrUnsupported(_, _, pm, h) => clamp_cap(*pm, *h),
                _ => u64::MAX,
            };
            for f in base.files.iter_mut() {
                let max = std::cmp::min(std::cmp::min(b.saturating_mul(300), cap2), 4 << 20);
                let mut total = 0u64;
                for s in f.content.segs.iter_mut() {
                    let l = match s {
                        Seg::Data(l, _) | Seg::Hole(l) | Seg::Zero(l) | Seg::PreData(l, _, _) => l,
                    };
                    if total + *l > max {
                        *l = max - total;
                    }
                    total += *l;
                }
                f.content.segs.retain(|s| !matches!(s, Seg::Data(0, _) | Seg::Hole(0) | Seg::Zero(0)));
            }
            base.files.truncate(3);
            // the userspace fallback allocates a buffer of min(len, block) bytes; fine for these sizes
            Case { base, plan, seed }
        })
        .boxed()
}

fn clamp_action(h: ClampHow, seed: u64) -> Action {
    match h {
        ClampHow::One => Action::ClampTo(1),
        ClampHow::To(n) => Action::ClampTo(n as u64),
        ClampHow::Rand => Action::ClampRand(seed),
        ClampHow::Minus1 => Action::ClampMinus1,
    }
}

pub fn rules_for(c: &Case) -> Vec<Rule> {
    let sb = PathSel::Sandbox;
    match &c.plan {
        PlanKind::ClampCfr(pm, h) => vec![Rule { sys: vec![Sys::CopyFileRange], path: sb, nth: Nth::Prob(c.seed, *pm), action: clamp_action(*h, c.seed) }],
        PlanKind::CfrUnsupported(e, k, pm, h) => {
            let mut v = vec![Rule { sys: vec![Sys::CopyFileRange], path: sb.clone(), nth: Nth::From(*k as usize), action: Action::Errno(*e) }];
            if *pm > 0 {
                v.push(Rule { sys: vec![Sys::Read, Sys::Write, Sys::Pread, Sys::Pwrite], path: sb, nth: Nth::Prob(c.seed, *pm), action: clamp_action(*h, c.seed) });
            }
            v
        }
        PlanKind::CloneUnsupported(e) => vec![Rule { sys: vec![Sys::Ficlone], path: sb, nth: Nth::All, action: Action::Errno(*e) }],
        PlanKind::FiemapUnsupported => vec![Rule { sys: vec![Sys::Fiemap], path: sb, nth: Nth::All, action: Action::Errno(libc::EOPNOTSUPP) }],
        PlanKind::ReadEintr(k) => vec![
            Rule { sys: vec![Sys::CopyFileRange], path: sb.clone(), nth: Nth::All, action: Action::Errno(libc::ENOSYS) },
            Rule { sys: vec![Sys::Read], path: sb, nth: Nth::Kth(*k as usize), action: Action::Errno(libc::EINTR) },
        ],
        PlanKind::NaturalCrossFs | PlanKind::NaturalTmpfs => vec![],
        PlanKind::ShortThenError(e, h) => vec![
            Rule { sys: vec![Sys::CopyFileRange], path: sb.clone(), nth: Nth::Kth(0), action: clamp_action(*h, c.seed) },
            // (a rule only counts the calls that reach it: the call after the clamped one is this rule's first)
            Rule { sys: vec![Sys::CopyFileRange], path: sb, nth: Nth::Kth(0), action: Action::Errno(*e) },
        ],
    }
}

pub fn plan_name(p: &PlanKind) -> String {
    match p {
        PlanKind::ClampCfr(pm, h) => format!("clamp-cfr/{}/{}", pm, how_name(*h)),
        PlanKind::CfrUnsupported(e, k, pm, h) => format!("cfr-errno{}/from{}/clamp-rw{}/{}", e, std::cmp::min(*k, 1), pm, how_name(*h)),
        PlanKind::CloneUnsupported(e) => format!("ficlone-errno{}", e),
        PlanKind::FiemapUnsupported => "fiemap-eopnotsupp".into(),
        PlanKind::ReadEintr(_) => "read-eintr".into(),
        PlanKind::NaturalCrossFs => "natural-ext4-to-tmpfs".into(),
        PlanKind::NaturalTmpfs => "natural-tmpfs".into(),
        PlanKind::ShortThenError(e, h) => format!("short-then-errno{}/{}", e, how_name(*h)),
    }
}
fn how_name(h: ClampHow) -> &'static str {
    match h {
        ClampHow::One => "1byte",
        ClampHow::To(_) => "to-n",
        ClampHow::Rand => "rand",
        ClampHow::Minus1 => "req-1",
    }
}

pub fn judge(c: &Case, rec: &mut Rec) -> Verdict {
    let natural = matches!(c.plan, PlanKind::NaturalCrossFs | PlanKind::NaturalTmpfs);
    let sb = match if c.plan == PlanKind::NaturalTmpfs { Sandbox::new_in("/dev/shm") } else { Sandbox::new() } {
        Ok(s) => s,
        Err(e) => return Verdict::Inconclusive(format!("sandbox: {e}")),
    };
    let mut ents = ents_for(&c.base);
    let mut args = args_for(&c.base);
    // cross-fs: destination directory lives on tmpfs, reached through an absolute path
    let shm = if c.plan == PlanKind::NaturalCrossFs {
        match Sandbox::new_in("/dev/shm") {
            Ok(s) => Some(s),
            Err(e) => return Verdict::Inconclusive(format!("sandbox shm: {e}")),
        }
    } else {
        None
    };
    if let Some(s2) = &shm {
        // move the "d" subtree to the tmpfs sandbox
        let (d_ents, rest): (Vec<Ent>, Vec<Ent>) = ents.into_iter().partition(|e| e.path == b"d" || e.path.starts_with(b"d/"));
        ents = rest;
        if let Err(e) = materialise(&s2.root, &d_ents) {
            return Verdict::Inconclusive(format!("materialise shm: {e}"));
        }
        let n = args.len();
        let last = args[n - 1].clone();
        args[n - 1] = join(&s2.rootb(), &last);
    }
    if let Err(e) = materialise(&sb.root, &ents) {
        return Verdict::Inconclusive(format!("materialise: {e}"));
    }
    let rules = rules_for(c);
    let spec = SupSpec {
        bin: PathBuf::from(XCP_BIN),
        args: args.clone(),
        cwd: sb.root.clone(),
        umask: 0o022,
        nofile: None,
        timeout: std::time::Duration::from_secs(60),
        out_dir: sb.out.clone(),
        root: sb.rootb(),
        extra_roots: shm.iter().map(|s| s.rootb()).collect(),
        rules,
        sched: Sched::free(),
        log_all: false,
        extra_env: vec![],
        stdout_to: None,
    };
    let out = Sup::run(spec);
    rec.eval(1);
    if let Some(e) = &out.setup_error {
        return Verdict::Inconclusive(format!("supervisor: {e}"));
    }
    if out.timed_out {
        return Verdict::Inconclusive(format!("watchdog: {}", out.hang_state.clone().unwrap_or_default()));
    }
    let fired: usize = out.fired.iter().sum();
    let driver = if c.base.parblock { "parblock" } else { "parfile" };
    let b = eff_block(&c.base);
    let maxlen = c.base.files.iter().map(|f| f.content.len()).max().unwrap_or(0);
    let sparse = c.base.files.iter().any(|f| f.content.has_hole());
    // what actually happened in the run (from the log)
    let n_short = out.log.iter().filter(|e| e.act.as_deref().map(|a| a.starts_with("clamp")).unwrap_or(false)).count();
    let n_err = out.log.iter().filter(|e| e.act.as_deref().map(|a| a.starts_with("errno")).unwrap_or(false)).count();
    let nat_exdev = out.log.iter().filter(|e| (e.sys == Sys::CopyFileRange || e.sys == Sys::Ficlone) && e.ret == -(libc::EXDEV as i64)).count();
    let nat_nofiemap = out.log.iter().filter(|e| e.sys == Sys::Fiemap && e.ret == -(libc::EOPNOTSUPP as i64) && e.act.is_none()).count();
    let key = format!("{}|{}|{}|{}|exit={}", plan_name(&c.plan), driver, gen::blocks_class(maxlen, b), if sparse { "sparse" } else { "dense" }, if out.ok() { "0" } else { "!0" });
    let new = rec.class(key);
    rec.count("calls_clamped", n_short as i64);
    rec.count("calls_failed", n_err as i64);
    rec.count("natural_exdev", nat_exdev as i64);
    rec.count("natural_no_fiemap", nat_nofiemap as i64);
    if !out.ok() {
        rec.count("exit_nonzero", 1);
        return Verdict::Pass; // allowed by the property
    }
    rec.count("exit_zero", 1);
    let happened = fired > 0 || (natural && (nat_exdev > 0 || nat_nofiemap > 0 || c.plan == PlanKind::NaturalTmpfs));
    if happened {
        rec.nontrivial(case_hash(c));
    }
    if new && happened {
        rec.sample(json!({"argv": args.iter().map(|a| esc(a)).collect::<Vec<_>>(), "plan": plan_name(&c.plan), "clamped": n_short, "failed": n_err,
            "calls": out.log.iter().filter(|e| e.act.is_some()).take(4).map(|e| e.short()).collect::<Vec<_>>()}));
    }
    // compare (destination may live in the tmpfs sandbox)
    let cmp = if let Some(s2) = &shm {
        let mut bad = None;
        for i in 0..c.base.files.len() {
            let src = sb.abs(format!("s/f{}", i).as_bytes());
            let dst = s2.abs(&c01::dest_of(&c.base, i));
            match first_diff(&src, &dst) {
                Ok(None) => {}
                Ok(Some(off)) => {
                    bad = Some((i, format!("differs at offset {}", off)));
                    break;
                }
                Err(e) => {
                    bad = Some((i, format!("compare: {e}")));
                    break;
                }
            }
        }
        bad
    } else {
        compare_files(&sb, &c.base)
    };
    match cmp {
        None => Verdict::Pass,
        Some((i, why)) => {
            // which kind of call was shortened/failed decides the signature (call site)
            let call = if out.log.iter().any(|e| e.sys == Sys::CopyFileRange && e.act.as_deref().map(|a| a.starts_with("clamp")).unwrap_or(false)) {
                "short-copy_file_range"
            } else if n_short > 0 {
                "short-read/write"
            } else if n_err > 0 {
                "unsupported-errno"
            } else {
                "natural"
            };
            Verdict::faild(
                format!("C05|{}|{}", driver, call),
                format!("exit 0 but file {} wrong: {} under plan {} ({} calls clamped, {} failed)", i, why, plan_name(&c.plan), n_short, n_err),
                json!({"argv": args.iter().map(|a| esc(a)).collect::<Vec<_>>(), "log": out.log.iter().filter(|e| e.sys.is_data_write() || e.act.is_some() || e.sys == Sys::Pread || e.sys == Sys::Read).take(40).map(|e| e.short()).collect::<Vec<_>>()}),
            )
        }
    }
}

// ------------------------------------------------------------------ libfs without the Linux backend

#[derive(Clone, Debug, Serialize, Deserialize)]
pub struct FbCase {
    pub content: Content,
    /// 0 copy_file, 1 cursor copy in chunks, 2 offset copy (blocks in permuted order), 3 copy_sparse
    pub op: u8,
    pub bsize: u32,
    pub seed: u64,
    pub prior_len: Option<u32>,
    /// clamp read/write/pread/pwrite with this probability (0 = run unsupervised)
    pub clamp_pm: u32,
    pub how: ClampHow,
}

fn fb_strategy() -> BoxedStrategy<FbCase> {
    (
        prop_oneof![Just(1u32), Just(7), Just(512), Just(4096), Just(4097), Just(65536)],
        0u8..4,
        any::<u64>(),
        prop::option::of(0u32..100000),
        prop_oneof![2 => Just(0u32), 1 => Just(50u32), 1 => Just(500u32), 1 => Just(1000u32)],
        clamp_how(),
    )
        .prop_flat_map(|(bsize, op, seed, prior_len, clamp_pm, how)| {
            let cap = match (clamp_pm, how) {
                (0, _) => 2 << 20,
                (pm, ClampHow::One) => 400 * 1000 / pm as u64,
                (pm, ClampHow::To(n)) => (n as u64).saturating_mul(400 * 1000 / pm as u64),
                _ => 2 << 20,
            };
            gen::content(bsize as u64, 300, std::cmp::min(cap, 2 << 20)).prop_map(move |content| FbCase { content, op, bsize, seed, prior_len, clamp_pm, how })
        })
        .boxed()
}

fn judge_fb(c: &FbCase, rec: &mut Rec) -> Verdict {
    let sb = match Sandbox::new() {
        Ok(s) => s,
        Err(e) => return Verdict::Inconclusive(format!("sandbox: {e}")),
    };
    let mut ents = vec![Ent::file(b"src", c.content.clone())];
    if let Some(pl) = c.prior_len {
        ents.push(Ent::file(b"dst", Content::data(pl as u64, 9)));
    }
    if let Err(e) = materialise(&sb.root, &ents) {
        return Verdict::Inconclusive(format!("materialise: {e}"));
    }
    let opname = ["copy_file", "bytes", "offsets", "sparse"][c.op as usize % 4];
    let mut args: Vec<Vec<u8>> = vec![opname.as_bytes().to_vec(), b"src".to_vec(), b"dst".to_vec()];
    if opname == "bytes" {
        args.push(c.bsize.to_string().into_bytes());
    }
    if opname == "offsets" {
        args.push(c.bsize.to_string().into_bytes());
        args.push(c.seed.to_string().into_bytes());
    }
    let (ok, clamped, stdout) = if c.clamp_pm == 0 {
        let mut spec = RunSpec::xcp(args.clone(), &sb.root, &sb.out);
        spec.bin = PathBuf::from(FALLBACK_BIN);
        let o = run_plain(&spec);
        if o.timed_out {
            return Verdict::Inconclusive("watchdog".into());
        }
        (o.ok(), 0usize, String::from_utf8_lossy(&o.stdout).to_string())
    } else {
        let spec = SupSpec {
            bin: PathBuf::from(FALLBACK_BIN),
            args: args.clone(),
            cwd: sb.root.clone(),
            umask: 0o022,
            nofile: None,
            timeout: std::time::Duration::from_secs(60),
            out_dir: sb.out.clone(),
            root: sb.rootb(),
            extra_roots: vec![],
            rules: vec![Rule { sys: vec![Sys::Read, Sys::Write, Sys::Pread, Sys::Pwrite], path: PathSel::Sandbox, nth: Nth::Prob(c.seed, c.clamp_pm), action: clamp_action(c.how, c.seed) }],
            sched: Sched::free(),
            log_all: false,
            extra_env: vec![],
            stdout_to: None,
        };
        let o = Sup::run(spec);
        if o.setup_error.is_some() || o.timed_out {
            return Verdict::Inconclusive(format!("supervisor: {:?} timeout={}", o.setup_error, o.timed_out));
        }
        (o.ok(), o.fired.iter().sum::<usize>(), String::from_utf8_lossy(&o.stdout).to_string())
    };
    rec.eval(1);
    let len = c.content.len();
    let key = format!("fallback|{}|{}|clamp{}|{}|exit={}", opname, gen::blocks_class(len, c.bsize as u64), c.clamp_pm, if c.content.has_hole() { "sparse" } else { "dense" }, if ok { "0" } else { "!0" });
    let new = rec.class(key);
    rec.count("fallback_calls_clamped", clamped as i64);
    if !ok {
        return Verdict::Pass;
    }
    if len > 0 {
        rec.nontrivial(case_hash(c));
    }
    if new {
        rec.sample(json!({"probe": args.iter().map(|a| esc(a)).collect::<Vec<_>>(), "len": len, "clamped_calls": clamped}));
    }
    match first_diff(&sb.abs(b"src"), &sb.abs(b"dst")) {
        Ok(None) => Verdict::Pass,
        Ok(Some(off)) => Verdict::faild(
            format!("C05|fallback|{}|{}", opname, if clamped > 0 { "short-read/write" } else { "plain" }),
            format!("libfs (no Linux backend) {} reported success ({}) but the copy differs at offset {} of {}", opname, stdout.trim(), off, len),
            json!({"probe": args.iter().map(|a| esc(a)).collect::<Vec<_>>(), "clamped": clamped}),
        ),
        Err(e) => Verdict::Inconclusive(format!("compare: {e}")),
    }
}

impl Check for C05 {
    fn id(&self) -> &'static str {
        "C05"
    }
    fn level(&self) -> &'static str {
        "fault_enumeration"
    }
    fn rule(&self) -> String {
        "C01's generated file cases (bounded to <=300 blocks, <=3 files) x a generated fault plan applied by the ptrace supervisor to the real xcp: legal short counts (1 byte, n bytes, random, requested-1) on copy_file_range with probability 5%/50%/100%; copy_file_range failing with ENOSYS/EXDEV/EPERM from the first or k-th call, with the userspace fallback's read/write/pread/pwrite additionally clamped; FICLONE answered EOPNOTSUPP/EINVAL/EXDEV; FIEMAP answered EOPNOTSUPP; read() EINTR; the first copy_file_range call cut short and the next one failing with EIO/ENOSPC (an error after partial progress must not become success); plus natural ext4->tmpfs and tmpfs->tmpfs runs. Oracle: exit 0 => destination byte-identical. Non-trivial: at least one call actually clamped/failed (or the natural facility really missing) and exit 0; distinct by case hash. The libfs build without the Linux backend is covered by the 'fallback' sub-check (in-process probe).".into()
    }
    fn assumptions(&self) -> Vec<String> {
        vec!["short counts are produced by lowering the length register at syscall entry, so the kernel really transfers n bytes (a legal short return); errnos are injected by cancelling the call".into()]
    }
    fn needs(&self) -> Needs {
        Needs { xcp: true, probe: false, fallback: true }
    }
    fn run_shard(&self, ctx: &Ctx, rec: &mut Rec) {
        let (total, fb) = match ctx.tier {
            Tier::Quick => (4000, 1500),
            Tier::Thorough => (180000, 60000),
        };
        prop_loop(ctx, rec, "gen", strategy(), ctx.share(total), judge);
        prop_loop(ctx, rec, "fallback", fb_strategy(), ctx.share(fb), judge_fb);
    }
    fn replay(&self, _ctx: &Ctx, sub: &str, case: &Value) -> Verdict {
        if sub == "fallback" {
            return match serde_json::from_value::<FbCase>(case.clone()) {
                Ok(c) => judge_fb(&c, &mut Rec::default()),
                Err(e) => Verdict::Inconclusive(format!("bad case: {e}")),
            };
        }
        match serde_json::from_value::<Case>(case.clone()) {
            Ok(c) => judge(&c, &mut Rec::default()),
            Err(e) => Verdict::Inconclusive(format!("bad case: {e}")),
        }
    }
    fn min_nontrivial(&self, tier: Tier) -> usize {
        match tier {
            Tier::Quick => 500,
            Tier::Thorough => 5000,
        }
    }
    fn required_classes(&self, _tier: Tier) -> Vec<String> {
        ["clamp-cfr/", "cfr-errno38", "cfr-errno18", "cfr-errno1/", "ficlone-errno", "fiemap-eopnotsupp", "read-eintr", "natural-ext4-to-tmpfs", "natural-tmpfs", "|parblock|", "|parfile|", "sparse", "fallback|copy_file", "fallback|bytes", "fallback|offsets", "fallback|sparse", "clamp1000", "short-then-errno5", "short-then-errno28"].iter().map(|s| s.to_string()).collect()
    }
}
