//! C03 — sources and bystanders are never modified, even by self-copies or kills.

use super::c02;
use super::tree::*;
use super::{Check, Needs};
use crate::engine::*;
use crate::model::{self, Inv, Mapped, Plan};
use crate::run::*;
use crate::sandbox::*;
use crate::spec::*;
use crate::sup::*;
use crate::util::*;
use proptest::prelude::*;
use serde::{Deserialize, Serialize};
use serde_json::{json, Value};
use std::collections::BTreeSet;
use std::path::PathBuf;

pub struct C03;

// ------------------------------------------------------------------ alias sub-check

#[derive(Clone, Copy, Debug, Serialize, Deserialize, PartialEq)]
pub enum Alias {
    /// xcp f ./f
    DotSlash,
    /// xcp f by/../f
    DotDot,
    /// xcp f <abs>/f   (or the reverse)
    AbsVsRel,
    RelVsAbs,
    /// xcp f .          (the file's own directory)
    OwnDir,
    /// xcp sub/f sub
    OwnSubDir,
    /// ln -s f l; xcp f l
    Symlink,
    /// ln -s <abs>/f l; xcp f l
    SymlinkAbs,
    /// ln f h; xcp f h
    Hardlink,
    /// ln -s t lt; xcp -r -T t lt     (directory reached through a link)
    DirSymlinkT,
    /// xcp -r t .       (directory into its own parent)
    DirOwnParent,
    /// xcp -r t/ ./     (same with trailing slashes)
    DirOwnParentSlash,
    /// ln -s . here; xcp -r t here
    DirParentViaLink,
    /// xcp f //<abs>//f
    DoubleSlashAbs,
    /// xcp --target-directory . f
    TargetDirOwn,
    /// the source is a FIFO / socket and the destination is another spelling of it: xcp p ./p
    FifoDotSlash,
    SockDotDot,
    /// ln p ph; xcp p ph     (hard link of a FIFO)
    FifoHardlink,
    /// xcp -r t .  where t contains a FIFO (maps onto itself)
    DirWithFifoOwnParent,
    /// xcp -r t /dev/shm/<other sandbox>/X  where X/t/f is a symbolic link back to the source file t/f:
    /// the alias crosses a filesystem boundary
    OtherFsTreeLinkBack,
}

const ALIASES: &[Alias] = &[
    Alias::DotSlash, Alias::DotDot, Alias::AbsVsRel, Alias::RelVsAbs, Alias::OwnDir, Alias::OwnSubDir, Alias::Symlink, Alias::SymlinkAbs,
    Alias::Hardlink, Alias::DirSymlinkT, Alias::DirOwnParent, Alias::DirOwnParentSlash, Alias::DirParentViaLink, Alias::DoubleSlashAbs, Alias::TargetDirOwn,
    Alias::FifoDotSlash, Alias::SockDotDot, Alias::FifoHardlink, Alias::DirWithFifoOwnParent, Alias::OtherFsTreeLinkBack,
];

#[derive(Clone, Debug, Serialize, Deserialize)]
pub struct AliasCase {
    pub alias: Alias,
    pub len: u32,
    pub tree: Vec<GEnt>,
    pub flags: (bool, u8, Option<u64>),
    pub backup: u8,
    pub extra: u8,
    /// run under the supervisor and fail the k-th stat-like lookup of the destination path with EACCES/EIO
    #[serde(default)]
    pub stat_fault: Option<(u8, bool)>,
}

fn alias_strategy() -> BoxedStrategy<AliasCase> {
    (0..ALIASES.len(), prop_oneof![1 => Just(0u32), 6 => 1u32..5000, 1 => 100000u32..300000], prop::collection::vec(gent(TOP_SAFE, false), 1..6), common_flags(), 0u8..4, 0u8..8, prop::option::weighted(0.3, (0u8..16, any::<bool>())))
        .prop_map(|(a, len, tree, flags, backup, extra, stat_fault)| AliasCase { alias: ALIASES[a], len, tree, flags, backup, extra, stat_fault })
        .boxed()
}

fn alias_build(c: &AliasCase, root: &[u8]) -> (Vec<Ent>, Inv) {
    let mut ents = bystanders();
    ents.push(Ent::file(b"f", Content::data(c.len as u64, 1)).with_mode(0o640).with_mtime(1_234_567_890, 123_456_789));
    ents.push(Ent::dir(b"sub"));
    ents.push(Ent::file(b"sub/f", Content::data(c.len as u64, 2)).with_mode(0o600).with_mtime(1_234_567_891, 5));
    ents.extend(build_tree(b"t", &c.tree, root, 3));
    // make sure the tree has at least one file
    ents.push(Ent::file(b"t/zz_file", Content::data(c.len as u64 + 1, 3)).with_mtime(1_234_567_892, 6));
    let mut inv = Inv::default();
    apply_common(&mut inv, c.flags);
    inv.backup = match c.backup {
        1 => "numbered".into(),
        2 => "auto".into(),
        _ => String::new(),
    };
    if c.extra & 1 == 1 {
        inv.no_perms = true;
    }
    if c.extra & 2 == 2 {
        inv.no_timestamps = true;
    }
    if c.extra & 4 == 4 {
        inv.fsync = true;
    }
    let s = |x: &str| x.as_bytes().to_vec();
    match c.alias {
        Alias::DotSlash => {
            inv.sources = vec![s("f")];
            inv.dest = s("./f");
        }
        Alias::DotDot => {
            inv.sources = vec![s("f")];
            inv.dest = s("by/../f");
        }
        Alias::AbsVsRel => {
            inv.sources = vec![s("f")];
            inv.dest = join(root, b"f");
        }
        Alias::RelVsAbs => {
            inv.sources = vec![join(root, b"f")];
            inv.dest = s("f");
        }
        Alias::OwnDir => {
            inv.sources = vec![s("f")];
            inv.dest = s(".");
        }
        Alias::OwnSubDir => {
            inv.sources = vec![s("sub/f")];
            inv.dest = s("sub");
        }
        Alias::Symlink => {
            ents.push(Ent::link(b"l", b"f"));
            inv.sources = vec![s("f")];
            inv.dest = s("l");
        }
        Alias::SymlinkAbs => {
            ents.push(Ent::link(b"l", &join(root, b"f")));
            inv.sources = vec![s("f")];
            inv.dest = s("l");
        }
        Alias::Hardlink => {
            ents.push(Ent::new(b"h", Kind::Hard(b"f".to_vec())));
            inv.sources = vec![s("f")];
            inv.dest = s("h");
        }
        Alias::DirSymlinkT => {
            ents.push(Ent::link(b"lt", b"t"));
            inv.sources = vec![s("t")];
            inv.dest = s("lt");
            inv.recursive = true;
            inv.no_target_dir = true;
        }
        Alias::DirOwnParent => {
            inv.sources = vec![s("t")];
            inv.dest = s(".");
            inv.recursive = true;
        }
        Alias::DirOwnParentSlash => {
            inv.sources = vec![s("t/")];
            inv.dest = s("./");
            inv.recursive = true;
        }
        Alias::DirParentViaLink => {
            ents.push(Ent::link(b"here", b"."));
            inv.sources = vec![s("t")];
            inv.dest = s("here");
            inv.recursive = true;
        }
        Alias::DoubleSlashAbs => {
            inv.sources = vec![s("f")];
            let mut d = b"/".to_vec();
            d.extend_from_slice(root);
            d.extend_from_slice(b"//f");
            inv.dest = d;
        }
        Alias::TargetDirOwn => {
            inv.sources = vec![s("f")];
            inv.dest = s(".");
            inv.target_dir_opt = true;
        }
        Alias::FifoDotSlash => {
            ents.push(Ent::new(b"p", Kind::Fifo).with_mode(0o640));
            inv.sources = vec![s("p")];
            inv.dest = s("./p");
        }
        Alias::SockDotDot => {
            ents.push(Ent::new(b"p", Kind::Sock).with_mode(0o600));
            inv.sources = vec![s("p")];
            inv.dest = s("by/../p");
        }
        Alias::FifoHardlink => {
            ents.push(Ent::new(b"p", Kind::Fifo).with_mode(0o640));
            ents.push(Ent::new(b"ph", Kind::Hard(b"p".to_vec())));
            inv.sources = vec![s("p")];
            inv.dest = s("ph");
        }
        Alias::DirWithFifoOwnParent => {
            ents.push(Ent::new(b"t/zz_fifo", Kind::Fifo).with_mode(0o644));
            inv.sources = vec![s("t")];
            inv.dest = s(".");
            inv.recursive = true;
        }
        Alias::OtherFsTreeLinkBack => {
            // the destination (on tmpfs) is built and filled in by the judge
            inv.sources = vec![s("t")];
            inv.recursive = true;
        }
    }
    (ents, inv)
}

fn judge_alias(c: &AliasCase, rec: &mut Rec) -> Verdict {
    let sb = match Sandbox::new() {
        Ok(s) => s,
        Err(e) => return Verdict::Inconclusive(format!("sandbox: {e}")),
    };
    let root = sb.rootb();
    let (ents, inv) = alias_build(c, &root);
    if let Err(e) = materialise(&sb.root, &ents) {
        return Verdict::Inconclusive(format!("materialise: {e}"));
    }
    let mut inv = inv;
    let _other = if c.alias == Alias::OtherFsTreeLinkBack {
        let sb2 = match Sandbox::new_in("/dev/shm") {
            Ok(s) => s,
            Err(e) => return Verdict::Inconclusive(format!("sandbox on tmpfs: {e}")),
        };
        let back = join(&root, b"t/zz_file");
        if let Err(e) = materialise(&sb2.root, &[Ent::dir(b"X"), Ent::dir(b"X/t"), Ent::link(b"X/t/zz_file", &back)]) {
            return Verdict::Inconclusive(format!("materialise tmpfs: {e}"));
        }
        inv.dest = join(&sb2.rootb(), b"X");
        Some(sb2)
    } else {
        None
    };
    let pre = match snapshot(&sb.root) {
        Ok(s) => s,
        Err(e) => return Verdict::Inconclusive(format!("snapshot: {e}")),
    };
    // optionally one injected lookup failure on the destination path ("for each injected system-call failure")
    let (ok, code, timed_out, stderr, fault_fired) = if let Some((k, eio)) = c.stat_fault {
        let dest_abs = lex_norm(&root, &inv.dest);
        let rule = Rule { sys: vec![Sys::Stat, Sys::Access], path: PathSel::Exact(dest_abs), nth: Nth::Kth(k as usize), action: Action::Errno(if eio { libc::EIO } else { libc::EACCES }) };
        let o = Sup::run(sup_spec(&sb, inv.argv(), vec![rule], Sched::free()));
        if o.setup_error.is_some() {
            return Verdict::Inconclusive(format!("supervisor {:?}", o.setup_error));
        }
        (o.ok(), o.code, o.timed_out, o.stderr_s(), o.fired.iter().sum::<usize>() > 0)
    } else {
        let o = run_plain(&RunSpec::xcp(inv.argv(), &sb.root, &sb.out));
        (o.ok(), o.code, o.timed_out, o.stderr_s(), false)
    };
    rec.eval(1);
    if timed_out {
        return Verdict::Inconclusive("watchdog".into());
    }
    let post = match snapshot(&sb.root) {
        Ok(s) => s,
        Err(e) => return Verdict::Inconclusive(format!("snapshot: {e}")),
    };
    struct O { code: Option<i32>, okf: bool, stderr: String }
    impl O { fn ok(&self) -> bool { self.okf } fn stderr_s(&self) -> String { self.stderr.clone() } }
    let out = O { code, okf: ok, stderr };
    let driver = inv.driver();
    if c.stat_fault.is_some() {
        rec.class(format!("alias+stat-fault|fired={}", fault_fired));
    }
    let new = rec.class(format!("alias|{:?}|{}|backup={}|exit={}", c.alias, driver, inv.backup, if out.ok() { "0" } else { "!0" }));
    rec.nontrivial(case_hash(c));
    if new {
        rec.sample(json!({"alias": format!("{:?}", c.alias), "argv": inv.argv_s(), "exit": out.code}));
    }
    // The destination *is* the source: refused or no-op. Everything must be exactly as before
    // (numbered/auto backups of a file onto itself would also be a change of the source's directory).
    let diffs = model::snap_diff(&pre, &post);
    if diffs.is_empty() {
        return Verdict::Pass;
    }
    let what = if diffs.iter().any(|d| d.contains("content") || d.contains("size")) { "source-content-destroyed" } else if diffs.iter().any(|d| d.starts_with("removed")) { "source-removed" } else { "source-or-dir-metadata-changed" };
    let special = matches!(c.alias, Alias::FifoDotSlash | Alias::SockDotDot | Alias::FifoHardlink | Alias::DirWithFifoOwnParent);
    Verdict::faild(
        format!("C03|alias|{}{}{}", what, if special { "|special-file" } else { "" }, if fault_fired { "|after-failed-lookup" } else { "" }),
        format!("self-copy through {:?} changed the source: {}", c.alias, diffs.iter().take(3).cloned().collect::<Vec<_>>().join("; ")),
        json!({"argv": inv.argv_s(), "exit": out.code, "stderr": out.stderr_s(), "diffs": diffs.iter().take(10).collect::<Vec<_>>()}),
    )
}

// ------------------------------------------------------------------ any-outcome / trace / kill sub-check

#[derive(Clone, Debug, Serialize, Deserialize)]
pub struct KillCase {
    pub base: c02::Case,
    /// (index into the list of mutating calls, after?)
    pub kills: Vec<(u16, bool)>,
}

fn kill_strategy() -> BoxedStrategy<KillCase> {
    (c02::strategy(), prop::collection::vec((any::<u16>(), any::<bool>()), 3..6)).prop_map(|(base, kills)| KillCase { base, kills }).boxed()
}

pub fn is_mutating(e: &Ev) -> bool {
    match e.sys {
        Sys::Open => e.is_write_open(),
        Sys::Ftruncate | Sys::Truncate | Sys::Fallocate | Sys::CopyFileRange | Sys::Sendfile | Sys::Write | Sys::Pwrite | Sys::Mkdir | Sys::Symlink | Sys::Link | Sys::Mknod
        | Sys::Rename | Sys::Unlink | Sys::Rmdir | Sys::Chmod | Sys::Utimens | Sys::Chown | Sys::Setxattr | Sys::Ficlone => true,
        _ => false,
    }
}

/// resolve an event path through symlinks as far as the filesystem (after the run) allows
pub fn real_rel(root: &[u8], p: &[u8]) -> Option<Vec<u8>> {
    let pp = pb(p);
    let real = match std::fs::canonicalize(pp.parent().unwrap_or(&pp)) {
        Ok(par) => {
            let mut v = pbytes(&par);
            v = join(&v, basename(p));
            v
        }
        Err(_) => p.to_vec(),
    };
    model::rel_to_root(root, &real)
}

/// protected entries (everything that is not a mapped destination path) must be unchanged
pub fn protected_diffs(pre: &Snap, post: &Snap, mapped: &[Mapped]) -> Vec<String> {
    let dsts: BTreeSet<&[u8]> = mapped.iter().map(|m| m.dst.as_slice()).collect();
    let mut touched: BTreeSet<Vec<u8>> = BTreeSet::new();
    for m in mapped {
        touched.insert(parent(&m.dst).to_vec());
        if m.kind == K::D {
            touched.insert(m.dst.clone());
        }
    }
    let mut diffs = vec![];
    for (p, a) in pre {
        if dsts.contains(p.as_slice()) {
            continue;
        }
        match post.get(p) {
            None => diffs.push(format!("removed: {}", esc(p))),
            Some(b) => {
                if let Some(d) = model::meta_diff(a, b, touched.contains(p)) {
                    diffs.push(format!("changed: {}: {}", esc(p), d));
                }
            }
        }
    }
    diffs
}

fn sup_spec(sb: &Sandbox, args: Vec<Vec<u8>>, rules: Vec<Rule>, sched: Sched) -> SupSpec {
    SupSpec {
        bin: PathBuf::from(XCP_BIN),
        args,
        cwd: sb.root.clone(),
        umask: 0o022,
        nofile: None,
        timeout: std::time::Duration::from_secs(30),
        out_dir: sb.out.clone(),
        root: sb.rootb(),
        extra_roots: vec![],
        rules,
        sched,
        log_all: false,
        extra_env: vec![],
        stdout_to: None,
    }
}

fn judge_kill(c: &KillCase, rec: &mut Rec) -> Verdict {
    // ---- recording run (also judged: any outcome, trace invariant)
    let sb = match Sandbox::new() {
        Ok(s) => s,
        Err(e) => return Verdict::Inconclusive(format!("sandbox: {e}")),
    };
    let root = sb.rootb();
    let b = c02::build(&c.base, &root);
    // real-run histories are C02's business; here the first run is skipped and the edits are not applied
    if let Err(e) = materialise(&sb.root, &b.ents) {
        return Verdict::Inconclusive(format!("materialise: {e}"));
    }
    let pre = match snapshot(&sb.root) {
        Ok(s) => s,
        Err(e) => return Verdict::Inconclusive(format!("snapshot: {e}")),
    };
    let mapped = match model::plan(&pre, &root, &b.inv) {
        Plan::Copy(m) => m,
        _ => {
            rec.count("not_a_copy_plan", 1);
            return Verdict::Pass;
        }
    };
    let driver = b.inv.driver();
    let out = Sup::run(sup_spec(&sb, b.inv.argv(), vec![], Sched::free()));
    rec.eval(1);
    if let Some(e) = &out.setup_error {
        return Verdict::Inconclusive(format!("supervisor: {e}"));
    }
    if out.timed_out {
        return Verdict::Inconclusive("watchdog".into());
    }
    let post = match snapshot(&sb.root) {
        Ok(s) => s,
        Err(e) => return Verdict::Inconclusive(format!("snapshot: {e}")),
    };
    rec.class(format!("record|{}|dest={}|exit={}", driver, b.dest_state, if out.ok() { "0" } else { "!0" }));
    let diffs = protected_diffs(&pre, &post, &mapped);
    if !diffs.is_empty() {
        return Verdict::faild(
            format!("C03|run|{}|protected-entry-changed", driver),
            format!("a source or bystander changed (exit {:?}): {}", out.code, diffs.iter().take(3).cloned().collect::<Vec<_>>().join("; ")),
            json!({"argv": b.inv.argv_s(), "diffs": diffs.iter().take(10).collect::<Vec<_>>(), "stderr": out.stderr_s()}),
        );
    }
    // trace invariant: every mutating call targets a mapped destination path (catches damage a later
    // identical write would hide)
    let dsts: BTreeSet<Vec<u8>> = mapped.iter().map(|m| m.dst.clone()).collect();
    let muts: Vec<&Ev> = out.log.iter().filter(|e| is_mutating(e) && e.path.as_ref().map(|p| p.starts_with(&root)).unwrap_or(false)).collect();
    for e in &muts {
        let p = e.path.as_ref().unwrap();
        if let Some(rel) = real_rel(&root, p) {
            // mkdir -p probes ancestors of the destination: a failed (EEXIST) mkdir changes nothing
            if e.sys == Sys::Mkdir && !e.ok() {
                continue;
            }
            // a numbered backup: the old destination file is renamed to <mapped destination>.~N~
            if e.sys == Sys::Rename && !b.inv.backup.is_empty() && super::c04::is_backup_name(&rel) {
                if let Some(old) = e.path2.as_ref().and_then(|p| real_rel(&root, p)) {
                    if dsts.contains(&old) && rel.starts_with(&old) {
                        continue;
                    }
                }
            }
            // symlink()/mknod()/unlink() act on the final component itself: when the destination was given
            // through a symbolic link (dlink -> d) that component *is* the designated destination
            let through_link = matches!(model::resolve(&pre, &root, &rel, true), model::Res::Found(ref p) if dsts.contains(p));
            if !dsts.contains(&rel) && !through_link {
                return Verdict::faild(
                    format!("C03|trace|{}|mutating-call-outside-destination", driver),
                    format!("mutating call on a path that is no mapped destination: {}", e.short()),
                    json!({"argv": b.inv.argv_s(), "call": e.short()}),
                );
            }
        }
    }
    if !muts.is_empty() {
        rec.nontrivial(case_hash(&(&c.base, "trace")));
    }
    rec.count("mutating_calls_seen", muts.len() as i64);
    if muts.is_empty() {
        return Verdict::Pass;
    }
    // ---- kill points: (sys, path, k-th) of a mutating call, before or after
    let mut occ: std::collections::BTreeMap<(Sys, Vec<u8>), usize> = Default::default();
    let mut points: Vec<(Sys, Vec<u8>, usize)> = vec![];
    for e in &out.log {
        if let Some(p) = &e.path {
            if p.starts_with(&root) {
                let k = occ.entry((e.sys, p.clone())).or_insert(0);
                if is_mutating(e) {
                    points.push((e.sys, p.clone(), *k));
                }
                *k += 1;
            }
        }
    }
    let mut seen_idx: BTreeSet<(usize, bool)> = BTreeSet::new();
    for (ki, after) in &c.kills {
        let idx = monotonic_index(*ki, points.len());
        if !seen_idx.insert((idx, *after)) {
            continue;
        }
        let (sys, path, k) = points[idx].clone();
        let sb2 = match Sandbox::new() {
            Ok(s) => s,
            Err(e) => return Verdict::Inconclusive(format!("sandbox: {e}")),
        };
        let root2 = sb2.rootb();
        let b2 = c02::build(&c.base, &root2);
        if let Err(e) = materialise(&sb2.root, &b2.ents) {
            return Verdict::Inconclusive(format!("materialise: {e}"));
        }
        let pre2 = match snapshot(&sb2.root) {
            Ok(s) => s,
            Err(e) => return Verdict::Inconclusive(format!("snapshot: {e}")),
        };
        let mapped2 = match model::plan(&pre2, &root2, &b2.inv) {
            Plan::Copy(m) => m,
            _ => continue,
        };
        // translate the path into the new sandbox
        let path2 = join(&root2, &path[std::cmp::min(path.len(), root.len() + 1)..]);
        let rule = Rule { sys: vec![sys], path: PathSel::Exact(path2.clone()), nth: Nth::Kth(k), action: if *after { Action::KillAfter } else { Action::KillBefore } };
        let o2 = Sup::run(sup_spec(&sb2, b2.inv.argv(), vec![rule], Sched::free()));
        rec.eval(1);
        if o2.setup_error.is_some() || o2.timed_out {
            rec.count("kill_run_inconclusive", 1);
            continue;
        }
        let fired = o2.fired.iter().sum::<usize>() > 0;
        rec.class(format!("kill|{:?}|{}|{}|fired={}", sys, if *after { "after" } else { "before" }, driver, fired));
        if !fired {
            continue;
        }
        rec.nontrivial(case_hash(&(&c.base, idx, *after)));
        let post2 = match snapshot(&sb2.root) {
            Ok(s) => s,
            Err(e) => return Verdict::Inconclusive(format!("snapshot: {e}")),
        };
        let d2 = protected_diffs(&pre2, &post2, &mapped2);
        if !d2.is_empty() {
            return Verdict::faild(
                format!("C03|kill|{}|{:?}|protected-entry-changed", driver, sys),
                format!("after SIGKILL {} {:?}#{} on {}: {}", if *after { "after" } else { "before" }, sys, k, esc(&path2), d2.iter().take(3).cloned().collect::<Vec<_>>().join("; ")),
                json!({"argv": b2.inv.argv_s(), "diffs": d2.iter().take(10).collect::<Vec<_>>()}),
            );
        }
    }
    Verdict::Pass
}

impl Check for C03 {
    fn id(&self) -> &'static str {
        "C03"
    }
    fn level(&self) -> &'static str {
        "fault_enumeration"
    }
    fn rule(&self) -> String {
        "Three generated sub-checks on the real binary. alias: 15 alias relations between a source and its mapped destination (./f, by/../f, abs vs rel, //, the file's own directory, --target-directory ., symlink (relative/absolute), hard link, directory through a link with -T, directory into its own parent, parent through a link) x file sizes x trees x drivers x backup/metadata flags; oracle: whole-sandbox snapshot identical before and after whatever the exit status. run+trace: C02's generated cases under the ptrace supervisor; oracle: every entry that is not a mapped destination path is unchanged after any outcome, and no mutating system call (write-open, truncate, data write, mkdir, symlink, mknod, rename, unlink, chmod, utimens, chown, setxattr) targets a non-destination path. kill: for generated indices into the recorded list of mutating calls, re-run with SIGKILL before/after that call and compare the protected entries. Non-trivial: alias case, or a run with >=1 mutating call, or a kill that fired; distinct by (case, kill point).".into()
    }
    fn assumptions(&self) -> Vec<String> {
        vec!["kill granularity = system-call boundaries (before/after each mutating call)".into(), "atime and ctime are not compared; st_blocks is not compared (delayed allocation)".into()]
    }
    fn needs(&self) -> Needs {
        Needs { xcp: true, probe: false, fallback: false }
    }
    fn run_shard(&self, ctx: &Ctx, rec: &mut Rec) {
        let (na, nk) = match ctx.tier {
            Tier::Quick => (3000, 1000),
            Tier::Thorough => (60000, 24000),
        };
        prop_loop(ctx, rec, "alias", alias_strategy(), ctx.share(na), judge_alias);
        prop_loop(ctx, rec, "kill", kill_strategy(), ctx.share(nk), judge_kill);
    }
    fn replay(&self, _ctx: &Ctx, sub: &str, case: &Value) -> Verdict {
        if sub == "alias" {
            match serde_json::from_value::<AliasCase>(case.clone()) {
                Ok(c) => judge_alias(&c, &mut Rec::default()),
                Err(e) => Verdict::Inconclusive(format!("bad case: {e}")),
            }
        } else {
            match serde_json::from_value::<KillCase>(case.clone()) {
                Ok(c) => judge_kill(&c, &mut Rec::default()),
                Err(e) => Verdict::Inconclusive(format!("bad case: {e}")),
            }
        }
    }
    fn min_nontrivial(&self, tier: Tier) -> usize {
        match tier {
            Tier::Quick => 500,
            Tier::Thorough => 5000,
        }
    }
    fn required_classes(&self, _tier: Tier) -> Vec<String> {
        let mut v: Vec<String> = ALIASES.iter().map(|a| format!("alias|{:?}|", a)).collect();
        v.push("alias+stat-fault|fired=true".to_string());
        v.extend(["kill|Open|", "kill|CopyFileRange|", "kill|Ftruncate|", "kill|Mkdir|", "|after|", "|before|"].iter().map(|s| s.to_string()));
        v
    }
}
