//! C09 — numbered backups never lose a version, for any name, history or kill point.

use super::c03::is_mutating;
use super::c06::sup_spec;
use super::{Check, Needs};
use crate::engine::*;
use crate::run::*;
use crate::sandbox::*;
use crate::spec::*;
use crate::sup::*;
use crate::util::*;
use proptest::prelude::*;
use serde::{Deserialize, Serialize};
use serde_json::{json, Value};
use std::collections::BTreeMap;

pub struct C09;

pub const FNAMES: &[&[u8]] = &[
    b"a", b"a.txt", b"a.~1~", b"a.~1~.~2~", b"ab", b"b.", b"file.txt", b"file", b"z\xff", b"z\xffq", b"\xfe", "\u{fc}".as_bytes(), b"n~", b"1", b"~1~", b"f g",
    // <name>.~1~ is exactly NAME_MAX (255) bytes / one byte too long: the backup rename itself fails
    &[b'L'; 251], &[b'M'; 252],
];

#[derive(Clone, Copy, Debug, Serialize, Deserialize, PartialEq)]
pub enum NumClass {
    Small(u8),
    Gap,
    Large,
    NearMax,
    Max,
    Digits25,
    Zero,
    LeadingZeros,
    /// 1..=n with n in 9..=12: numbers of different lengths side by side
    UpTo(u8),
    /// two arbitrary numbers below 1200
    Pair(u16, u16),
}

fn numbers(nc: NumClass) -> Vec<String> {
    match nc {
        NumClass::Small(n) => (1..=(n % 5 + 1)).map(|i| i.to_string()).collect(),
        NumClass::Gap => vec!["1".into(), "7".into()],
        NumClass::Large => vec!["1000000000000000".into()],
        NumClass::NearMax => vec![(u64::MAX - 1).to_string()],
        NumClass::Max => vec![u64::MAX.to_string()],
        NumClass::Digits25 => vec!["1234567890123456789012345".into()],
        NumClass::Zero => vec!["0".into()],
        NumClass::LeadingZeros => vec!["007".into()],
        NumClass::UpTo(n) => (1..=(9 + n % 4)).map(|i| i.to_string()).collect(),
        NumClass::Pair(a, b) => vec![(1 + a % 1200).to_string(), (1 + b % 1200).to_string()],
    }
}

#[derive(Clone, Debug, Serialize, Deserialize)]
pub struct Step {
    /// 0 none, 1 auto, 2 numbered
    pub mode: u8,
    pub parblock: bool,
    pub workers: u8,
    /// bit i set: source file i gets new content before this step
    pub edits: u16,
}

#[derive(Clone, Debug, Serialize, Deserialize)]
pub struct Case {
    /// indices into FNAMES (made distinct)
    pub names: Vec<u8>,
    /// which names already exist in the destination (bit mask) before the first step
    pub present: u16,
    pub seeded: Vec<(u8, NumClass)>,
    pub steps: Vec<Step>,
    /// kill during step k at the generated mutating call, before/after
    pub kill: Option<(u8, u16, bool)>,
    /// in step k (modulo) the n-th directory read (getdents) of the destination directory fails with EIO:
    /// "listing a directory" failed, so either the run fails or the backups are still right
    #[serde(default)]
    pub list_fault: Option<(u8, u8)>,
}

fn num_class() -> BoxedStrategy<NumClass> {
    prop_oneof![
        4 => (0u8..5).prop_map(NumClass::Small),
        2 => Just(NumClass::Gap),
        1 => Just(NumClass::Large),
        1 => Just(NumClass::NearMax),
        1 => Just(NumClass::Max),
        1 => Just(NumClass::Digits25),
        1 => Just(NumClass::Zero),
        1 => Just(NumClass::LeadingZeros),
        2 => (0u8..4).prop_map(NumClass::UpTo),
        2 => (any::<u16>(), any::<u16>()).prop_map(|(a, b)| NumClass::Pair(a, b)),
    ]
    .boxed()
}

pub fn strategy(with_kill: bool) -> BoxedStrategy<Case> {
    let step = (prop_oneof![1 => Just(0u8), 3 => Just(1u8), 5 => Just(2u8)], any::<bool>(), 1u8..6, any::<u16>()).prop_map(|(mode, parblock, workers, edits)| Step { mode, parblock, workers, edits });
    let kill = if with_kill { (0u8..8, any::<u16>(), any::<bool>()).prop_map(Some).boxed() } else { Just(None).boxed() };
    (
        prop::collection::vec(0..FNAMES.len() as u8, 2..7),
        any::<u16>(),
        prop::collection::vec((0u8..8, num_class()), 0..4),
        prop::collection::vec(step, 2..7),
        kill,
        prop::option::weighted(0.2, (0u8..8, 0u8..6)),
    )
        .prop_map(|(names, present, seeded, steps, kill, list_fault)| Case { names, present, seeded, steps, kill, list_fault })
        .boxed()
}

fn distinct_names(c: &Case) -> Vec<Vec<u8>> {
    let mut v: Vec<Vec<u8>> = vec![];
    for n in &c.names {
        let name = FNAMES[*n as usize % FNAMES.len()].to_vec();
        // a source file that is itself named like a numbered backup of another source file makes
        // "backup of X" and "copy of the file X.~N~" indistinguishable by name: outside the domain
        let ambiguous = v.iter().any(|o| backup_number(o, &name).is_some() || backup_number(&name, o).is_some());
        if !v.contains(&name) && !ambiguous {
            v.push(name);
        }
    }
    v
}

/// `cand` is exactly `<name>.~<digits>~`: returns the digit string
pub fn backup_number<'a>(name: &[u8], cand: &'a [u8]) -> Option<&'a [u8]> {
    if cand.len() < name.len() + 4 || !cand.starts_with(name) {
        return None;
    }
    let rest = &cand[name.len()..];
    if !rest.starts_with(b".~") || *rest.last().unwrap() != b'~' {
        return None;
    }
    let digits = &rest[2..rest.len() - 1];
    if digits.is_empty() || !digits.iter().all(|c| c.is_ascii_digit()) {
        return None;
    }
    Some(digits)
}

/// compare decimal strings as numbers (arbitrary length)
fn num_gt(a: &[u8], b: &[u8]) -> bool {
    let sa: &[u8] = { let i = a.iter().position(|c| *c != b'0').unwrap_or(a.len()); &a[i..] };
    let sb: &[u8] = { let i = b.iter().position(|c| *c != b'0').unwrap_or(b.len()); &b[i..] };
    if sa.len() != sb.len() {
        return sa.len() > sb.len();
    }
    sa > sb
}

fn name_class(name: &[u8]) -> &'static str {
    if name.len() > 200 {
        "name-max"
    } else if std::str::from_utf8(name).is_err() {
        "non-utf8"
    } else if name.ends_with(b"~") {
        "backup-like"
    } else {
        "plain"
    }
}

const MODES: &[&str] = &["none", "auto", "numbered"];

fn args_for(st: &Step) -> Vec<Vec<u8>> {
    let s = |x: &str| x.as_bytes().to_vec();
    vec![s("--driver"), s(if st.parblock { "parblock" } else { "parfile" }), s("--workers"), st.workers.to_string().into_bytes(), s(&format!("--backup={}", MODES[st.mode as usize % 3])), s("-r"), s("s"), s("d")]
}

/// invariants of one step given the destination directory before and after
fn check_step(names: &[Vec<u8>], pre: &Snap, post: &Snap, mode: &str, exit_ok: bool, src_hashes: &BTreeMap<Vec<u8>, Option<(u64, u64)>>) -> Option<(String, String)> {
    let dir = b"d/s";
    // every previously existing backup (indeed every previously existing entry that is not a mapped file) unchanged
    for (p, a) in pre {
        if !p.starts_with(b"d/") {
            continue;
        }
        let is_mapped = names.iter().any(|n| join(dir, n) == *p);
        if is_mapped || a.kind == K::D {
            continue;
        }
        match post.get(p) {
            None => return Some(("existing-backup-removed".into(), format!("pre-existing {} vanished", esc(p)))),
            Some(b) => {
                if a.hash != b.hash || a.ino != b.ino || a.kind != b.kind {
                    return Some(("existing-backup-replaced".into(), format!("pre-existing {} was modified or replaced", esc(p))));
                }
            }
        }
    }
    for n in names {
        let dst = join(dir, n);
        let old = match pre.get(&dst) {
            Some(m) if m.kind == K::F => m,
            _ => continue, // nothing overwritten
        };
        let prev_nums: Vec<Vec<u8>> = pre.keys().filter(|p| parent(p) == dir).filter_map(|p| backup_number(n, basename(p)).map(|d| d.to_vec())).collect();
        // a new entry named <name>.~N~ that is not itself the mapped destination of another source file
        let new_backups: Vec<(&Vec<u8>, &Meta)> = post
            .iter()
            .filter(|(p, _)| parent(p) == dir && !pre.contains_key(*p) && backup_number(n, basename(p)).is_some() && !names.iter().any(|o| o.as_slice() == basename(p)))
            .collect();
        // is some other name's backup pattern also matching? (names are prefix related) - keep exact semantics: only exact <name>.~N~
        let holder = new_backups.iter().find(|(_, m)| m.hash == old.hash && m.size == old.size);
        let expect_backup = match mode {
            "numbered" => true,
            "auto" => !prev_nums.is_empty(),
            _ => false,
        };
        if !exit_ok {
            if !expect_backup {
                continue; // overwriting without a backup is what this mode asks for
            }
            // old content must still exist under the original or a backup name
            let still = post.get(&dst).map(|m| m.hash == old.hash && m.size == old.size).unwrap_or(false) || holder.is_some();
            if !still {
                return Some(("old-content-lost-on-failure".into(), format!("run failed and the old content of {} exists neither under its name nor a new backup", esc(&dst))));
            }
            continue;
        }
        let overwritten = post.get(&dst).map(|m| Some(m.hash) != Some(old.hash) || m.ino != old.ino).unwrap_or(true);
        let _ = src_hashes;
        if expect_backup {
            if !overwritten {
                continue;
            }
            match holder {
                None => return Some((format!("{}-backup-missing", mode), format!("{} overwritten in {} mode but no new {}.~N~ holds the old content (new backups: {:?})", esc(&dst), mode, esc(n), new_backups.iter().map(|(p, _)| esc(p)).collect::<Vec<_>>()))),
                Some((p, m)) => {
                    if m.mode != old.mode || m.mtime != old.mtime {
                        return Some(("backup-not-intact".into(), format!("backup {} does not carry the old file's mode/mtime", esc(p))));
                    }
                    let d = backup_number(n, basename(p)).unwrap();
                    for pn in &prev_nums {
                        if !num_gt(d, pn) {
                            return Some(("number-not-greater".into(), format!("new backup {} is not numbered above existing ~{}~", esc(p), String::from_utf8_lossy(pn))));
                        }
                    }
                }
            }
        } else if !new_backups.is_empty() {
            return Some((format!("{}-spurious-backup", mode), format!("{} mode without an existing backup of {} created {}", mode, esc(n), esc(new_backups[0].0))));
        }
    }
    None
}

pub fn judge(c: &Case, rec: &mut Rec) -> Verdict {
    let names = distinct_names(c);
    let sb = match Sandbox::new() {
        Ok(s) => s,
        Err(e) => return Verdict::Inconclusive(format!("sandbox: {e}")),
    };
    let root = sb.rootb();
    let mut ents = vec![Ent::dir(b"s"), Ent::dir(b"d"), Ent::dir(b"d/s")];
    for (i, n) in names.iter().enumerate() {
        ents.push(Ent::file(&join(b"s", n), Content::data(40 + i as u64, i as u8)).with_mode(0o644));
        if c.present & (1 << i) != 0 {
            ents.push(Ent::file(&join(b"d/s", n), Content::data(30 + i as u64, 100 + i as u8)).with_mode(0o600).with_mtime(1_111_111_111, 1 + i as u32));
        }
    }
    let mut seeded_desc = vec![];
    for (ni, nc) in &c.seeded {
        let n = &names[*ni as usize % names.len()];
        for (k, num) in numbers(*nc).iter().enumerate() {
            let mut bn = n.clone();
            bn.extend_from_slice(format!(".~{}~", num).as_bytes());
            let p = join(b"d/s", &bn);
            if ents.iter().any(|e| e.path == p) || bn.len() > 255 {
                continue;
            }
            ents.push(Ent::file(&p, Content::data(20 + k as u64, 200u8.wrapping_add(k as u8))).with_mtime(1_000_000_000, k as u32));
            seeded_desc.push(format!("{:?}", nc));
        }
    }
    if let Err(e) = materialise(&sb.root, &ents) {
        return Verdict::Inconclusive(format!("materialise: {e}"));
    }
    let mut overwrites_per_name: BTreeMap<Vec<u8>, u32> = BTreeMap::new();
    let mut mode_seq = String::new();
    for (si, st) in c.steps.iter().enumerate() {
        // edit sources
        for (i, n) in names.iter().enumerate() {
            if st.edits & (1 << i) != 0 || si == 0 {
                let content = Content::data(50 + (si * 16 + i) as u64, (si * 16 + i) as u8);
                if write_content(&sb.abs(&join(b"s", n)), &content).is_err() {
                    return Verdict::Inconclusive("edit failed".into());
                }
            }
        }
        let pre = match snapshot(&sb.root) {
            Ok(s) => s,
            Err(e) => return Verdict::Inconclusive(format!("snapshot: {e}")),
        };
        let mode = MODES[st.mode as usize % 3];
        mode_seq.push(mode.chars().next().unwrap());
        let args = args_for(st);
        let argv_s: Vec<String> = args.iter().map(|a| esc(a)).collect();
        // optional kill inside this step (numbered mode only)
        let kill_here = matches!(c.kill, Some((k, _, _)) if k as usize % c.steps.len() == si) && mode == "numbered";
        let (ok, killed, stderr) = if kill_here {
            let (_, pi, after) = c.kill.unwrap();
            // recording run in a scratch copy of the current sandbox state is expensive; instead record
            // the same step on this sandbox's twin: enumerate the mutating calls with a dry supervised run
            // in a cloned directory tree
            let twin = match Sandbox::new() {
                Ok(s) => s,
                Err(e) => return Verdict::Inconclusive(format!("sandbox: {e}")),
            };
            let cp = std::process::Command::new("cp").arg("-a").arg(format!("{}/.", sb.root.display())).arg(&twin.root).status();
            if !cp.map(|s| s.success()).unwrap_or(false) {
                return Verdict::Inconclusive("twin copy failed".into());
            }
            let rec_out = Sup::run(sup_spec(&twin, args.clone(), vec![], Sched::free()));
            rec.eval(1);
            let troot = twin.rootb();
            let mut occ: BTreeMap<(Sys, Vec<u8>), usize> = BTreeMap::new();
            let mut points = vec![];
            for e in &rec_out.log {
                if let Some(p) = &e.path {
                    if p.starts_with(&troot) {
                        let k = occ.entry((e.sys, p.clone())).or_insert(0);
                        if is_mutating(e) {
                            points.push((e.sys, p[troot.len()..].to_vec(), *k));
                        }
                        *k += 1;
                    }
                }
            }
            if points.is_empty() {
                (true, false, String::new())
            } else {
                let (sys, rel, k) = points[monotonic_index(pi, points.len())].clone();
                let mut path = root.clone();
                path.extend_from_slice(&rel);
                let rule = Rule { sys: vec![sys], path: PathSel::Exact(path), nth: Nth::Kth(k), action: if after { Action::KillAfter } else { Action::KillBefore } };
                let o = Sup::run(sup_spec(&sb, args.clone(), vec![rule], Sched::free()));
                rec.eval(1);
                if o.setup_error.is_some() || o.timed_out {
                    return Verdict::Inconclusive("kill run".into());
                }
                let fired = o.fired.iter().sum::<usize>() > 0;
                rec.class(format!("kill|{:?}|{}|fired={}", sys, if after { "after" } else { "before" }, fired));
                (o.ok() && !fired, fired, o.stderr_s())
            }
        } else if matches!(c.list_fault, Some((k, _)) if k as usize % c.steps.len() == si) && mode != "none" {
            let (_, n) = c.list_fault.unwrap();
            let rule = Rule { sys: vec![Sys::Getdents], path: PathSel::Exact(join(&root, b"d/s")), nth: Nth::Kth(n as usize), action: Action::Errno(libc::EIO) };
            let o = Sup::run(sup_spec(&sb, args.clone(), vec![rule], Sched::free()));
            rec.eval(1);
            if o.setup_error.is_some() || o.timed_out {
                return Verdict::Inconclusive("fault run".into());
            }
            let fired = o.fired.iter().sum::<usize>() > 0;
            rec.class(format!("listing-fault|{}|fired={}|exit={}", mode, fired, if o.ok() { "0" } else { "!0" }));
            (o.ok(), false, o.stderr_s())
        } else {
            let o = run_plain(&RunSpec::xcp(args.clone(), &sb.root, &sb.out));
            rec.eval(1);
            if o.timed_out {
                return Verdict::Inconclusive("watchdog".into());
            }
            (o.ok(), false, o.stderr_s())
        };
        let post = match snapshot(&sb.root) {
            Ok(s) => s,
            Err(e) => return Verdict::Inconclusive(format!("snapshot: {e}")),
        };
        // classification
        let mut overwrote = false;
        for n in &names {
            if pre.get(&join(b"d/s", n)).map(|m| m.kind == K::F).unwrap_or(false) {
                overwrote = true;
                if mode != "none" {
                    *overwrites_per_name.entry(n.clone()).or_insert(0) += 1;
                }
            }
        }
        let ncls: Vec<&str> = { let mut v: Vec<&str> = names.iter().map(|n| name_class(n)).collect(); v.sort(); v.dedup(); v };
        let new = rec.class(format!("step|{}|{}|{}|names={}|exit={}{}", mode, if st.parblock { "parblock" } else { "parfile" }, if overwrote { "overwrite" } else { "fresh" }, ncls.join("+"), if ok { "0" } else { "!0" }, if killed { "|killed" } else { "" }));
        if overwrote && mode != "none" {
            rec.nontrivial(case_hash(&(c, si)));
        }
        if new {
            rec.sample(json!({"step": si, "argv": argv_s, "names": names.iter().map(|n| esc(n)).collect::<Vec<_>>(), "seeded": seeded_desc, "history_so_far": mode_seq, "dest_before": pre.keys().filter(|p| p.starts_with(b"d/s/")).map(|p| esc(p)).collect::<Vec<_>>()}));
        }
        if let Some((what, msg)) = check_step(&names, &pre, &post, mode, ok, &BTreeMap::new()) {
            // signature: which kind of name / number is involved
            let involved = names.iter().find(|n| msg.contains(&esc(n))).cloned().unwrap_or_default();
            let numclass = c.seeded.iter().map(|(_, nc)| match nc { NumClass::Max | NumClass::NearMax | NumClass::Digits25 => "huge-number", _ => "" }).find(|s| !s.is_empty()).unwrap_or("");
            let prefix_related = names.iter().any(|o| *o != involved && (o.starts_with(&involved) || involved.starts_with(o)));
            return Verdict::faild(
                format!("C09|{}|{}{}{}{}", what, name_class(&involved), if prefix_related { "|prefix-related-names" } else { "" }, if numclass.is_empty() { "".to_string() } else { format!("|{}", numclass) }, if killed { "|killed" } else { "" }),
                format!("step {} ({} mode, history {}): {}", si, mode, mode_seq, msg),
                json!({"argv": argv_s, "names": names.iter().map(|n| esc(n)).collect::<Vec<_>>(), "dest_before": pre.keys().filter(|p| p.starts_with(b"d/s/")).map(|p| esc(p)).collect::<Vec<_>>(),
                       "dest_after": post.keys().filter(|p| p.starts_with(b"d/s/")).map(|p| esc(p)).collect::<Vec<_>>(), "exit_ok": ok, "stderr": stderr}),
            );
        }
        if killed {
            break; // the history ends with the kill
        }
    }
    if overwrites_per_name.values().any(|v| *v >= 2) {
        rec.count("histories_with_repeated_overwrite_of_a_name", 1);
    }
    Verdict::Pass
}

impl Check for C09 {
    fn id(&self) -> &'static str {
        "C09"
    }
    fn rule(&self) -> String {
        "stateful, model-based: proptest generates a history of 2-6 steps over a directory of 2-6 files whose names are drawn from a set with prefix relations (a, a.txt, ab, file, file.txt), names that look like backups (a.~1~, a.~1~.~2~, ~1~, n~), trailing dots, spaces, unicode and non-UTF-8 bytes, names of 251 and 252 bytes (name.~1~ is exactly NAME_MAX / one byte too long, so the backup rename itself fails); the destination is pre-seeded with old versions and with backups numbered small / with gaps / 10^15 / u64::MAX-1 / u64::MAX / 25 digits / 0 / with leading zeros / 1..9+k (numbers of different lengths side by side) / arbitrary pairs below 1200; each step rewrites a generated subset of the sources and runs the real xcp -r with --backup none|auto|numbered, a generated driver and worker count. After every step the destination directory before and after is compared: numbered => each overwritten file's old bytes, mode and mtime are in a new <name>.~N~ with N above every number present for exactly that name; auto => that happens iff such a backup existed; none => no new backup; always => every pre-existing backup is untouched (same inode and bytes); on failure the old content still exists. In a fifth of the histories one directory read (getdents) of the destination directory fails with EIO in one auto/numbered step (the run must then fail, or the same invariants hold). The kill sub-check additionally kills xcp before/after a generated mutating call inside a numbered step. Non-trivial: a step that overwrote >=1 existing file in auto/numbered mode; distinct by (history, step).".into()
    }
    fn needs(&self) -> Needs {
        Needs { xcp: true, probe: false, fallback: false }
    }
    fn run_shard(&self, ctx: &Ctx, rec: &mut Rec) {
        let (h, k) = match ctx.tier {
            Tier::Quick => (2400, 800),
            Tier::Thorough => (60000, 18000),
        };
        prop_loop(ctx, rec, "history", strategy(false), ctx.share(h), judge);
        prop_loop(ctx, rec, "kill", strategy(true), ctx.share(k), judge);
    }
    fn replay(&self, _ctx: &Ctx, _sub: &str, case: &Value) -> Verdict {
        match serde_json::from_value::<Case>(case.clone()) {
            Ok(c) => judge(&c, &mut Rec::default()),
            Err(e) => Verdict::Inconclusive(format!("bad case: {e}")),
        }
    }
    fn min_nontrivial(&self, tier: Tier) -> usize {
        match tier {
            Tier::Quick => 800,
            Tier::Thorough => 8000,
        }
    }
    fn required_classes(&self, _tier: Tier) -> Vec<String> {
        ["step|numbered|", "step|auto|", "step|none|", "non-utf8", "backup-like", "name-max", "|killed", "kill|Rename|", "listing-fault|numbered|fired=true", "listing-fault|auto|fired=true"].iter().map(|s| s.to_string()).collect()
    }
}
