//! C01 — exit 0 implies every copied regular file is byte-identical to its source.

use super::gen;
use super::{Check, Needs};
use crate::engine::*;
use crate::run::*;
use crate::sandbox::*;
use crate::spec::*;
use crate::util::*;
use proptest::prelude::*;
use serde::{Deserialize, Serialize};
use serde_json::{json, Value};

pub struct C01;

#[derive(Clone, Debug, Serialize, Deserialize)]
pub struct FileSpec {
    pub content: Content,
    /// content of a pre-existing destination file, if any
    pub prior: Option<Content>,
}

#[derive(Clone, Debug, Serialize, Deserialize)]
pub struct Case {
    pub files: Vec<FileSpec>,
    pub parblock: bool,
    pub workers: u8,
    /// None = xcp's default block size
    pub block: Option<u64>,
    pub no_progress: bool,
    pub reflink_never: bool,
    /// copy the directory `s` recursively into the existing directory `d` (else: single file to file)
    pub as_tree: bool,
    /// options that must not matter for the bytes: bit0 --fsync, 1 --no-perms, 2 --no-timestamps,
    /// 3 --backup=numbered, 4 --ownership, 5 -v
    #[serde(default)]
    pub extra: u8,
}

const DEFAULT_BLOCK: u64 = 1_000_000;
/// apparent sizes of the huge, almost empty files
const HUGE: &[u64] = &[(1 << 31) - 1, 1 << 31, (1 << 31) + 4097, (1 << 32) - 1, 1 << 32, (1 << 32) + 12345, 5 << 30];

pub fn eff_block(c: &Case) -> u64 {
    if c.no_progress {
        u64::MAX
    } else {
        c.block.unwrap_or(DEFAULT_BLOCK)
    }
}

fn file_spec(b: u64) -> BoxedStrategy<FileSpec> {
    let max_bytes = 3 << 20;
    (gen::content(b, 4096, max_bytes), 0u8..8, gen::len_near(b, 3), 8u8..16)
        .prop_map(move |(content, pk, plen, pseed)| {
            let len = content.len();
            let prior = match pk {
                0..=2 => None,
                3 => Some(Content::data(len / 2, pseed)),                                  // shorter
                4 => Some(Content::data(len, pseed)),                                      // equal length
                5 | 6 => Some(Content::data(std::cmp::min(len + 1 + plen, 4 << 20), pseed)), // longer
                _ => Some(Content::data(std::cmp::min(plen, 4 << 20), pseed)),
            };
            FileSpec { content, prior }
        })
        .boxed()
}

pub fn strategy() -> BoxedStrategy<Case> {
    (gen::block_size(), any::<bool>(), gen::workers(), prop::bool::weighted(0.15), any::<bool>(), prop::bool::weighted(0.6))
        .prop_flat_map(|(block, parblock, workers, no_progress, reflink_never, as_tree)| {
            let b = block.unwrap_or(DEFAULT_BLOCK);
            let nfiles = if as_tree { 1..6usize } else { 1..2usize };
            (prop::collection::vec(file_spec(b), nfiles), prop::option::weighted(0.03, (0usize..HUGE.len(), 1u64..9000, 1u64..9000, any::<bool>()))).prop_map(move |(mut files, huge)| {
                let mut block = block;
                if let Some((h, a, z, lead)) = huge {
                    // apparent sizes around 2^31, 2^32 and beyond, almost entirely hole: offsets that do not fit 32 bits
                    let total = HUGE[h];
                    let mut segs = vec![];
                    if lead {
                        segs.push(Seg::Hole(total - z));
                    } else {
                        segs.push(Seg::Data(a, 1));
                        segs.push(Seg::Hole(total - a - z));
                    }
                    segs.push(Seg::Data(z, 2));
                    files = vec![FileSpec { content: Content { segs, sync: false }, prior: None }];
                    if block.map(|b| b < 65536).unwrap_or(false) {
                        block = Some(1 << 20);
                    }
                }
                Case { files, parblock, workers, block, no_progress, reflink_never, as_tree, extra: 0 }
            })
        })
        .boxed()
        .prop_flat_map(|c| (Just(c), prop_oneof![3 => Just(0u8), 2 => 0u8..64]))
        .prop_map(|(mut c, extra)| {
            c.extra = extra;
            c
        })
        .boxed()
}

pub fn args_for(c: &Case) -> Vec<Vec<u8>> {
    let mut a: Vec<Vec<u8>> = vec![];
    a.push(b"--driver".to_vec());
    a.push(if c.parblock { b"parblock".to_vec() } else { b"parfile".to_vec() });
    a.push(b"--workers".to_vec());
    a.push(c.workers.to_string().into_bytes());
    if let Some(b) = c.block {
        a.push(b"--block-size".to_vec());
        a.push(b.to_string().into_bytes());
    }
    if c.no_progress {
        a.push(b"--no-progress".to_vec());
    }
    if c.reflink_never {
        a.push(b"--reflink=never".to_vec());
    }
    for (bit, flag) in [(0, "--fsync"), (1, "--no-perms"), (2, "--no-timestamps"), (3, "--backup=numbered"), (4, "--ownership"), (5, "-v")] {
        if c.extra & (1 << bit) != 0 {
            a.push(flag.as_bytes().to_vec());
        }
    }
    if c.as_tree {
        a.push(b"-r".to_vec());
        a.push(b"s".to_vec());
        a.push(b"d".to_vec());
    } else {
        a.push(b"s/f0".to_vec());
        a.push(b"d/f0".to_vec());
    }
    a
}

pub fn ents_for(c: &Case) -> Vec<Ent> {
    let mut ents = vec![Ent::dir(b"s"), Ent::dir(b"d")];
    if c.as_tree && c.files.iter().any(|f| f.prior.is_some()) {
        ents.push(Ent::dir(b"d/s"));
    }
    for (i, f) in c.files.iter().enumerate() {
        ents.push(Ent::file(format!("s/f{}", i).as_bytes(), f.content.clone()));
        if let Some(p) = &f.prior {
            let dp = if c.as_tree { format!("d/s/f{}", i) } else { format!("d/f{}", i) };
            ents.push(Ent::file(dp.as_bytes(), p.clone()));
        }
    }
    ents
}

pub fn dest_of(c: &Case, i: usize) -> Vec<u8> {
    if c.as_tree {
        format!("d/s/f{}", i).into_bytes()
    } else {
        format!("d/f{}", i).into_bytes()
    }
}

/// Compare every destination file with its source; returns a description of the first difference.
pub fn compare_files(sb: &Sandbox, c: &Case) -> Option<(usize, String)> {
    for i in 0..c.files.len() {
        let src = sb.abs(format!("s/f{}", i).as_bytes());
        let dst = sb.abs(&dest_of(c, i));
        let sm = match std::fs::symlink_metadata(&src) {
            Ok(m) => m,
            Err(e) => return Some((i, format!("source vanished: {e}"))),
        };
        let dm = match std::fs::symlink_metadata(&dst) {
            Ok(m) => m,
            Err(_) => return Some((i, format!("destination {} missing", esc(&dest_of(c, i))))),
        };
        if !dm.is_file() {
            return Some((i, "destination is not a regular file".into()));
        }
        if sm.len() != dm.len() {
            return Some((i, format!("length differs: src {} dst {}", sm.len(), dm.len())));
        }
        if sm.len() > (64 << 20) && i64::from(0) == 0 && is_mostly_hole(&src) {
            // huge sparse files: hole-skipping canonical hash instead of reading gigabytes of zeros
            match (hash_file(&src), hash_file(&dst)) {
                (Ok(a), Ok(b)) if a == b => continue,
                (Ok(_), Ok(_)) => return Some((i, format!("content differs (sparse hash) in a file of {} bytes", sm.len()))),
                (Err(e), _) | (_, Err(e)) => return Some((i, format!("compare error {e}"))),
            }
        }
        match first_diff(&src, &dst) {
            Ok(None) => {}
            Ok(Some(off)) => return Some((i, format!("bytes differ first at offset {} of {}", off, sm.len()))),
            Err(e) => return Some((i, format!("compare error {e}"))),
        }
    }
    None
}

fn is_mostly_hole(p: &std::path::Path) -> bool {
    use std::os::unix::fs::MetadataExt;
    std::fs::metadata(p).map(|m| m.blocks() * 512 < m.len() / 8).unwrap_or(false)
}

fn judge(c: &Case, rec: &mut Rec) -> Verdict {
    let sb = match Sandbox::new() {
        Ok(s) => s,
        Err(e) => return Verdict::Inconclusive(format!("sandbox: {e}")),
    };
    if let Err(e) = materialise(&sb.root, &ents_for(c)) {
        return Verdict::Inconclusive(format!("materialise: {e}"));
    }
    let spec = RunSpec::xcp(args_for(c), &sb.root, &sb.out);
    let out = run_plain(&spec);
    rec.eval(1);
    if out.timed_out {
        return Verdict::Inconclusive("xcp timed out (watchdog)".into());
    }
    let b = eff_block(c);
    let driver = if c.parblock { "parblock" } else { "parfile" };
    if !out.ok() {
        rec.count("exit_nonzero", 1);
        rec.class(format!("exit!=0|{}", driver));
        return Verdict::Pass; // implication: nothing claimed
    }
    rec.count("exit_zero", 1);
    // classify
    let mut nontrivial = false;
    for f in &c.files {
        let len = f.content.len();
        let prior = match &f.prior {
            None => "fresh",
            Some(p) if p.len() < len => "prior-shorter",
            Some(p) if p.len() == len => "prior-equal",
            _ => "prior-longer",
        };
        let wk = match c.workers {
            0 => "w0",
            1 => "w1",
            2..=4 => "w2-4",
            _ => "w5+",
        };
        if c.extra != 0 {
            rec.class(format!("extra-options|{}", driver));
        }
        let key = format!(
            "{}|{}|{}|{}|{}|{}|{}",
            driver,
            gen::size_rel(len, std::cmp::min(b, 1 << 40)),
            gen::blocks_class(len, b),
            gen::layout_class(&f.content),
            prior,
            wk,
            if c.no_progress { "noprog" } else { "prog" }
        );
        let new = rec.class(key);
        if len >= (1 << 31) - 1 {
            rec.class(format!("huge-sparse|{}|{}", driver, if len >= (1 << 32) { ">=4GiB" } else { ">=2GiB" }));
        }
        if len > 0 && (gen::nblocks(len, b) >= 2 || f.prior.is_some() || f.content.has_hole()) {
            nontrivial = true;
        }
        if new && rec.samples.len() < 6 {
            rec.sample(json!({"argv": args_for(c).iter().map(|a| esc(a)).collect::<Vec<_>>(), "file_len": len, "segments": f.content.segs, "prior_len": f.prior.as_ref().map(|p| p.len())}));
        }
    }
    if nontrivial {
        rec.nontrivial(case_hash(c));
    }
    match compare_files(&sb, c) {
        None => Verdict::Pass,
        Some((i, why)) => {
            let f = &c.files[i];
            let big = f.content.len() > 0x7fff_f000;
            let sig = format!("C01|{}|{}", driver, if big { "content-mismatch>2GiB" } else { "content-mismatch" });
            Verdict::faild(
                sig,
                format!("exit 0 but file {} wrong: {} (driver {}, block {:?}, workers {})", i, why, driver, c.block, c.workers),
                json!({"argv": args_for(c).iter().map(|a| esc(a)).collect::<Vec<_>>(), "stderr": out.stderr_s()}),
            )
        }
    }
}

/// natural big-file cases on /dev/shm: larger than one kernel copy request (0x7ffff000 bytes)
fn big_cases() -> Vec<Case> {
    let mut v = vec![];
    for parblock in [false, true] {
        for len in [0x7fff_f000u64 + 3 * (1 << 20) + 4097, 0x7fff_f000u64 + 1] {
            v.push(Case {
                files: vec![FileSpec { content: Content::data(len, 3), prior: None }],
                parblock,
                workers: 4,
                block: None,
                no_progress: true,
                reflink_never: false,
                as_tree: false,
                extra: 0,
            });
        }
    }
    v
}

fn judge_big(c: &Case, rec: &mut Rec) -> Verdict {
    // RAM-backed; removed at once
    let sb = match Sandbox::new_in("/dev/shm") {
        Ok(s) => s,
        Err(e) => return Verdict::Inconclusive(format!("sandbox: {e}")),
    };
    if let Err(e) = materialise(&sb.root, &ents_for(c)) {
        return Verdict::Inconclusive(format!("materialise big: {e}"));
    }
    let mut spec = RunSpec::xcp(args_for(c), &sb.root, &sb.out);
    spec.timeout = std::time::Duration::from_secs(300);
    let out = run_plain(&spec);
    rec.eval(1);
    if out.timed_out {
        return Verdict::Inconclusive("big copy timed out".into());
    }
    let driver = if c.parblock { "parblock" } else { "parfile" };
    rec.class(format!("{}|natural>2GiB|exit{}", driver, out.code.unwrap_or(-1)));
    if !out.ok() {
        return Verdict::Pass;
    }
    rec.nontrivial(case_hash(c));
    match compare_files(&sb, c) {
        None => Verdict::Pass,
        Some((_, why)) => Verdict::faild(
            format!("C01|{}|content-mismatch>2GiB", driver),
            format!("exit 0 but {} (file of {} bytes, --no-progress, driver {})", why, c.files[0].content.len(), driver),
            json!({"argv": args_for(c).iter().map(|a| esc(a)).collect::<Vec<_>>()}),
        ),
    }
}

impl Check for C01 {
    fn id(&self) -> &'static str {
        "C01"
    }
    fn rule(&self) -> String {
        "proptest-generated (file layout of data/hole/zero segments sized around multiples of the block size, prior destination absent/shorter/equal/longer with a different non-zero pattern, driver, workers 0..16, block size in {1,2,3,7,512,4095,4096,4097,65536,1MiB,default} or random in 1..2^21, --no-progress, preallocated (fallocate) ranges partly written, huge almost-empty files of 2^31-1..5 GiB apparent size, option noise (--fsync --no-perms --no-timestamps --backup=numbered --ownership -v), reflink auto/never, single file or tree of 1-5 files); real xcp run; oracle = byte-for-byte comparison of every destination file with its source on exit 0. Non-trivial: exit 0 and size>0 and (>=2 blocks or prior destination or >=1 hole); distinct by hash of the whole case. Thorough adds natural >2GiB files on /dev/shm.".into()
    }
    fn assumptions(&self) -> Vec<String> {
        vec!["ext4 sandbox under /tmp; reflink unsupported there (clone success is exercised by C15 through emulation)".into(), "xcp built from /repo working tree with release arithmetic semantics".into()]
    }
    fn needs(&self) -> Needs {
        Needs { xcp: true, probe: false, fallback: false }
    }
    fn run_shard(&self, ctx: &Ctx, rec: &mut Rec) {
        let total = match ctx.tier {
            Tier::Quick => 4000,
            Tier::Thorough => 180000,
        };
        prop_loop(ctx, rec, "gen", strategy(), ctx.share(total), judge);
        if ctx.tier == Tier::Thorough {
            let bigs = big_cases();
            for (i, c) in bigs.iter().enumerate() {
                // spread over the first shards; memory: one big case per shard at a time
                if i % ctx.nshards == ctx.shard && i < 4 {
                    match judge_big(c, rec) {
                        Verdict::Fail(sig, reason, details) => {
                            if let Some(k) = ctx.is_known(&sig) {
                                *rec.known_hits.entry(format!("{}: {}", k.signature, k.what)).or_insert(0) += 1;
                            } else {
                                rec.failures.push(Failure { property: "C01".into(), sub: "big".into(), signature: sig, reason, case: serde_json::to_value(c).unwrap(), details });
                            }
                        }
                        Verdict::Inconclusive(w) => rec.inconclusive.push(w),
                        Verdict::Pass => {}
                    }
                }
            }
        }
    }
    fn replay(&self, _ctx: &Ctx, sub: &str, case: &Value) -> Verdict {
        let c: Case = match serde_json::from_value(case.clone()) {
            Ok(c) => c,
            Err(e) => return Verdict::Inconclusive(format!("bad case: {e}")),
        };
        let mut rec = Rec::default();
        if sub == "big" {
            judge_big(&c, &mut rec)
        } else {
            judge(&c, &mut rec)
        }
    }
    fn min_nontrivial(&self, tier: Tier) -> usize {
        match tier {
            Tier::Quick => 500,
            Tier::Thorough => 5000,
        }
    }
    fn required_classes(&self, _tier: Tier) -> Vec<String> {
        ["parblock|", "parfile|", "2-8blk", "9-128blk", ">128blk", "prior-longer", "prior-shorter", "k*b+1", "k*b-1", "k*b|", "mid-hole", "noprog", "huge-sparse|parblock|>=4GiB", "huge-sparse|parfile|>=4GiB"].iter().map(|s| s.to_string()).collect()
    }
}
