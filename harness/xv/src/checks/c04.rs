//! C04 — no silent failure: a failed step always yields a non-zero exit.

use super::c02;
use super::c03::is_mutating;
use super::{Check, Needs};
use crate::engine::*;
use crate::model::{self, Plan};
use crate::run::*;
use crate::sandbox::*;
use crate::sup::*;
use crate::util::*;
use proptest::prelude::*;
use serde::{Deserialize, Serialize};
use serde_json::{json, Value};
use std::collections::BTreeMap;
use std::path::PathBuf;

pub struct C04;

#[derive(Clone, Debug, Serialize, Deserialize)]
pub struct Case {
    pub base: c02::Case,
    /// bit0 no_perms, bit1 no_timestamps, bit2 fsync, bit3 ownership
    pub opts: u8,
    /// 0 none, 1 numbered, 2 auto
    pub backup: u8,
    /// (fault point index, errno choice)
    pub faults: Vec<(u16, u8)>,
}

pub fn strategy(nfaults: usize) -> BoxedStrategy<Case> {
    (c02::strategy(), 0u8..16, prop_oneof![3 => Just(0u8), 1 => Just(1u8), 1 => Just(2u8)], prop::collection::vec((any::<u16>(), any::<u8>()), nfaults..=nfaults))
        .prop_map(|(base, opts, backup, faults)| Case { base, opts, backup, faults })
        .boxed()
}

pub fn apply_opts(inv: &mut model::Inv, opts: u8, backup: u8) {
    inv.no_perms = opts & 1 != 0;
    inv.no_timestamps = opts & 2 != 0;
    inv.fsync = opts & 4 != 0;
    inv.ownership = opts & 8 != 0;
    inv.backup = match backup {
        1 => "numbered".into(),
        2 => "auto".into(),
        _ => String::new(),
    };
}

/// errnos a real kernel may return for this call (from the man pages)
pub fn errnos_for(e: &Ev) -> Vec<i32> {
    use libc::*;
    match e.sys {
        Sys::Open => {
            if e.is_write_open() {
                vec![EACCES, EMFILE, ENOSPC, EROFS, EIO]
            } else {
                vec![EACCES, EMFILE, EIO]
            }
        }
        Sys::Stat => vec![EACCES, EIO],
        Sys::Mkdir => vec![EACCES, ENOSPC, EROFS],
        Sys::Symlink => vec![EEXIST, EACCES, ENOSPC, EROFS, EPERM],
        Sys::Mknod => vec![EPERM, EEXIST, ENOSPC],
        Sys::Rename => vec![EACCES, ENOSPC, EROFS],
        Sys::Unlink => vec![EACCES, EROFS],
        Sys::Ftruncate => vec![EIO, EFBIG, EPERM],
        Sys::CopyFileRange | Sys::Write | Sys::Pwrite => vec![EIO, ENOSPC],
        Sys::Read | Sys::Pread | Sys::Getdents | Sys::Readlink => vec![EIO],
        Sys::Lseek => vec![EIO],
        Sys::Fiemap | Sys::Ficlone => vec![EIO],
        Sys::Chmod | Sys::Utimens => vec![EPERM, EROFS, EIO],
        Sys::Fsync => vec![EIO, ENOSPC],
        // tolerated by the property (warnings): still injected, to see that nothing else breaks
        Sys::Listxattr | Sys::Getxattr | Sys::Setxattr => vec![EIO, ENOSPC],
        Sys::Chown => vec![EPERM],
        _ => vec![],
    }
}

fn sup_spec(sb: &Sandbox, args: Vec<Vec<u8>>, rules: Vec<Rule>) -> SupSpec {
    SupSpec {
        bin: PathBuf::from(XCP_BIN),
        args,
        cwd: sb.root.clone(),
        umask: 0o022,
        nofile: None,
        timeout: std::time::Duration::from_secs(30),
        out_dir: sb.out.clone(),
        root: sb.rootb(),
        extra_roots: vec![],
        rules,
        sched: Sched::free(),
        log_all: false,
        extra_env: vec![],
        stdout_to: None,
    }
}

pub struct Prepared {
    pub sb: Sandbox,
    pub inv: model::Inv,
    pub pre: Snap,
    pub mapped: Vec<model::Mapped>,
    pub dest_state: &'static str,
}

/// Build the case in a fresh sandbox (no real-run history here: the first run is not performed).
pub fn prepare(c: &Case) -> Result<Option<Prepared>, String> {
    let sb = Sandbox::new().map_err(|e| format!("sandbox: {e}"))?;
    let root = sb.rootb();
    let mut b = c02::build(&c.base, &root);
    apply_opts(&mut b.inv, c.opts, c.backup);
    materialise(&sb.root, &b.ents).map_err(|e| format!("materialise: {e}"))?;
    let pre = snapshot(&sb.root).map_err(|e| format!("snapshot: {e}"))?;
    match model::plan(&pre, &root, &b.inv) {
        Plan::Copy(mapped) => Ok(Some(Prepared { sb, inv: b.inv, pre, mapped, dest_state: b.dest_state })),
        _ => Ok(None),
    }
}

pub fn is_backup_name(p: &[u8]) -> bool {
    // <name>.~N~
    let b = basename(p);
    if b.len() < 4 || *b.last().unwrap() != b'~' {
        return false;
    }
    match b[..b.len() - 1].iter().rposition(|c| *c == b'~') {
        Some(i) if i >= 1 && b[i - 1] == b'.' => b[i + 1..b.len() - 1].iter().all(|c| c.is_ascii_digit()) && i + 1 < b.len() - 1,
        _ => false,
    }
}

pub fn role_name(r: Role) -> &'static str {
    match r {
        Role::Main => "main",
        Role::Copy => "copy",
        Role::Walker => "walker",
        Role::Dispatcher => "dispatcher",
        Role::Worker(_) => "worker",
        Role::Unknown => "unknown",
    }
}

pub fn judge(c: &Case, rec: &mut Rec) -> Verdict {
    // ---- recording run
    let p1 = match prepare(c) {
        Ok(Some(p)) => p,
        Ok(None) => {
            rec.count("not_a_copy_plan", 1);
            return Verdict::Pass;
        }
        Err(e) => return Verdict::Inconclusive(e),
    };
    let root1 = p1.sb.rootb();
    let rec_out = Sup::run(sup_spec(&p1.sb, p1.inv.argv(), vec![]));
    rec.eval(1);
    if rec_out.setup_error.is_some() || rec_out.timed_out {
        return Verdict::Inconclusive(format!("recording run: {:?} timeout={}", rec_out.setup_error, rec_out.timed_out));
    }
    // fault points: (sys, path, k) for calls with applicable errnos
    let mut occ: BTreeMap<(Sys, Vec<u8>), usize> = BTreeMap::new();
    let mut points: Vec<(Sys, Vec<u8>, usize, Vec<i32>, bool)> = vec![];
    for e in &rec_out.log {
        if let Some(p) = &e.path {
            if p.starts_with(&root1) {
                let k = occ.entry((e.sys, p.clone())).or_insert(0);
                let errs = errnos_for(e);
                if !errs.is_empty() {
                    points.push((e.sys, p.clone(), *k, errs, is_mutating(e)));
                }
                *k += 1;
            }
        }
    }
    drop(p1);
    if points.is_empty() {
        return Verdict::Pass;
    }
    // ---- injection run
    let p2 = match prepare(c) {
        Ok(Some(p)) => p,
        Ok(None) => return Verdict::Pass,
        Err(e) => return Verdict::Inconclusive(e),
    };
    let root2 = p2.sb.rootb();
    let mut rules = vec![];
    let mut descr = vec![];
    for (pi, ei) in &c.faults {
        let (sys, path, k, errs, _m) = &points[monotonic_index(*pi, points.len())];
        let errno = errs[(*ei as usize) % errs.len()];
        let path2 = join(&root2, &path[std::cmp::min(path.len(), root1.len() + 1)..]);
        descr.push(format!("{:?}#{} {} -> errno {}", sys, k, esc(&path2[std::cmp::min(path2.len(), root2.len() + 1)..]), errno));
        rules.push(Rule { sys: vec![*sys], path: PathSel::Exact(path2), nth: Nth::Kth(*k), action: Action::Errno(errno) });
    }
    let out = Sup::run(sup_spec(&p2.sb, p2.inv.argv(), rules));
    rec.eval(1);
    if out.setup_error.is_some() {
        return Verdict::Inconclusive(format!("supervisor: {:?}", out.setup_error));
    }
    let driver = p2.inv.driver();
    if out.timed_out {
        // termination is C07's property; here it only means this case cannot be judged
        rec.count("timeouts", 1);
        return Verdict::Inconclusive(format!("watchdog under faults {:?}: {}", descr, out.hang_state.clone().unwrap_or_default()));
    }
    let fired: Vec<&Ev> = out.log.iter().filter(|e| e.act.as_deref().map(|a| a.starts_with("errno")).unwrap_or(false)).collect();
    if fired.is_empty() {
        rec.count("fault_not_reached", 1);
        return Verdict::Pass;
    }
    let f0 = fired[0];
    let target_role = {
        let p = f0.path.clone().unwrap_or_default();
        let rel = model::rel_to_root(&root2, &p).unwrap_or_default();
        if p2.mapped.iter().any(|m| m.dst == rel) {
            "dest"
        } else if p2.mapped.iter().any(|m| m.src == rel) {
            "src"
        } else if p2.pre.get(&rel).map(|m| m.kind == K::D).unwrap_or(false) {
            "dir"
        } else {
            "probe"
        }
    };
    let th_role = out.roles.get(f0.th).copied().unwrap_or(Role::Unknown);
    let key = format!("{:?}|{}|errno{}|{}|{}|exit={}", f0.sys, target_role, f0.errno(), driver, role_name(th_role), if out.ok() { "0" } else { "!0" });
    let new = rec.class(key);
    rec.nontrivial(case_hash(c));
    if new {
        rec.sample(json!({"argv": p2.inv.argv_s(), "fault": descr, "failed_call": f0.short(), "thread": role_name(th_role), "exit": out.code}));
    }
    if !out.ok() {
        rec.count("exit_nonzero", 1);
        if out.stderr.is_empty() && out.signal.is_none() {
            return Verdict::faild(format!("C04|{}|silent-nonzero-exit", driver), "non-zero exit without any error message".to_string(), json!({"argv": p2.inv.argv_s(), "fault": descr}));
        }
        return Verdict::Pass;
    }
    rec.count("exit_zero_despite_fault", 1);
    // exit 0 although a call failed: the destination must be complete and correct
    let post = match snapshot(&p2.sb.root) {
        Ok(s) => s,
        Err(e) => return Verdict::Inconclusive(format!("snapshot: {e}")),
    };
    let tolerated_sys = fired.iter().all(|e| matches!(e.sys, Sys::Listxattr | Sys::Getxattr | Sys::Setxattr | Sys::Chown));
    let o = model::CmpOpts { check_mode: !p2.inv.no_perms, check_mtime: !p2.inv.no_timestamps, allow_new: if p2.inv.backup.is_empty() { None } else { Some(is_backup_name) }, ignore_unmapped_changes_under: None };
    let mut diffs = model::compare_success(&p2.pre, &post, &p2.mapped, &o);
    if !p2.inv.backup.is_empty() {
        // a backup rename moves a pre-existing mapped file to a new name: that is not a bystander change
        diffs.retain(|d| !d.starts_with("unexpected new entry") || !d.contains(".~"));
    }
    if tolerated_sys {
        diffs.retain(|d| !d.contains("xattrs") && !d.contains("owner"));
    }
    // requested fsync: every regular destination file needs an fsync that succeeded
    if p2.inv.fsync {
        for m in p2.mapped.iter().filter(|m| m.kind == K::F) {
            // (the destination may be spelled through a symlinked directory: compare resolved paths)
            let abs = join(&root2, &m.dst);
            let synced = out.log.iter().any(|e| {
                e.sys == Sys::Fsync && e.ok() && e.path.as_ref().map(|p| p.as_slice() == abs.as_slice() || super::c03::real_rel(&root2, p).as_deref() == Some(m.dst.as_slice())).unwrap_or(false)
            });
            if !synced {
                diffs.push(format!("fsync: no successful fsync on {}", esc(&m.dst)));
            }
        }
    }
    // requested numbered backup: the old content of every overwritten regular file must survive as <name>.~N~
    if p2.inv.backup == "numbered" {
        for m in p2.mapped.iter().filter(|m| m.kind == K::F) {
            if let Some(old) = p2.pre.get(&m.dst) {
                if old.kind == K::F {
                    let mut prefix = m.dst.clone();
                    prefix.extend_from_slice(b".~");
                    let kept = post.iter().any(|(p, pm)| p.starts_with(&prefix) && is_backup_name(p) && !p2.pre.contains_key(p) && pm.hash == old.hash);
                    if !kept {
                        diffs.push(format!("backup: old content of {} not preserved", esc(&m.dst)));
                    }
                }
            }
        }
    }
    if diffs.is_empty() {
        return Verdict::Pass;
    }
    // signature by call site: which call failed, on what kind of target, and which step was lost
    let lost = if diffs[0].starts_with("backup") {
        "backup-step-lost"
    } else if diffs[0].starts_with("mode") || diffs[0].starts_with("mtime") || diffs[0].starts_with("fsync") {
        "finalise-step-lost"
    } else if f0.sys == Sys::Stat {
        "failed-probe-taken-as-absent"
    } else {
        "destination-incomplete"
    };
    // One root cause gets one signature whatever symptom comes first: with --glob, a lookup that fails while
    // main is still expanding the patterns (before any thread is created), on anything but the
    // destination itself, is swallowed inside the glob crate and the sources it concerns are dropped.
    let first_clone = out.log.iter().filter(|e| e.sys == Sys::Clone).map(|e| e.t_in).min().unwrap_or(u64::MAX);
    let f0_rel = model::rel_to_root(&root2, &f0.path.clone().unwrap_or_default()).unwrap_or_default();
    let dest_rel = model::rel_to_root(&root2, &p2.inv.dest).unwrap_or_default();
    let _ = f0_rel;
    let glob_phase_fault = |e: &Ev| {
        out.roles.get(e.th).copied() == Some(Role::Main)
            && e.t_in < first_clone
            && matches!(e.sys, Sys::Stat | Sys::Getdents | Sys::Open | Sys::Readlink)
            && model::rel_to_root(&root2, &e.path.clone().unwrap_or_default()).unwrap_or_default() != dest_rel
    };
    // (with two faults, one of them in the expansion phase is enough: the outcome is contaminated by the
    // known defect, so the case is counted under it and excluded)
    if p2.inv.glob && fired.iter().any(|e| glob_phase_fault(e)) {
        let f0 = *fired.iter().find(|e| glob_phase_fault(e)).unwrap();
        return Verdict::faild(
            "C04|glob-expansion|lookup-error-swallowed".to_string(),
            format!("exit 0 although {} failed with errno {} during --glob expansion: {}", f0.short(), f0.errno(), diffs.iter().take(3).cloned().collect::<Vec<_>>().join("; ")),
            json!({"argv": p2.inv.argv_s(), "fault": descr, "diffs": diffs.iter().take(10).collect::<Vec<_>>(), "stderr": out.stderr_s()}),
        );
    }
    Verdict::faild(
        format!("C04|{:?}|{}|{}|{}{}", f0.sys, target_role, lost, role_name(th_role), {
            let rel = model::rel_to_root(&root2, &f0.path.clone().unwrap_or_default()).unwrap_or_default();
            if p2.inv.glob && th_role == Role::Main && p2.inv.sources.iter().any(|s| parent(s) == rel.as_slice()) { "|glob-pattern-dir" } else { "" }
        }),
        format!("exit 0 although {} failed with errno {}: {}", f0.short(), f0.errno(), diffs.iter().take(3).cloned().collect::<Vec<_>>().join("; ")),
        json!({"argv": p2.inv.argv_s(), "fault": descr, "diffs": diffs.iter().take(10).collect::<Vec<_>>(), "stderr": out.stderr_s(), "thread": role_name(th_role),
            "log": if std::env::var("XV_DEBUG").is_ok() { out.log.iter().filter(|e| e.path.is_some()).map(|e| e.short()).collect::<Vec<_>>() } else { vec![] }}),
    )
}

impl Check for C04 {
    fn id(&self) -> &'static str {
        "C04"
    }
    fn level(&self) -> &'static str {
        "fault_enumeration"
    }
    fn rule(&self) -> String {
        "C02's generated sandboxes x options (no-perms, no-timestamps, fsync, ownership, backup none/numbered/auto) x fault: a recording run under the ptrace supervisor enumerates the fault points (k-th call of a given name on a given path, over every sandbox-related call of walker, dispatcher, workers and main); a generated index selects one (thorough: also pairs) and a generated choice selects an errno from that call's man-page set (EIO ENOSPC EACCES EMFILE EROFS EEXIST EPERM EFBIG); the case is re-materialised and re-run with that call cancelled and the errno returned. Oracle: fault fired and exit 0 => destination equals the reference model (kinds, bytes, link text, requested mode and mtime, requested fsync issued, nothing else touched); exit != 0 => an error message was printed. Failures of xattr/chown calls are tolerated as the property allows. Non-trivial: the fault fired; distinct by case hash; classes = (call, target role, errno, driver, thread role, exit).".into()
    }
    fn assumptions(&self) -> Vec<String> {
        vec!["single faults in the quick tier, single and double in thorough; the errno is returned without side effect (early failure)".into()]
    }
    fn needs(&self) -> Needs {
        Needs { xcp: true, probe: false, fallback: false }
    }
    fn run_shard(&self, ctx: &Ctx, rec: &mut Rec) {
        match ctx.tier {
            Tier::Quick => prop_loop(ctx, rec, "single", strategy(1), ctx.share(4000), judge),
            Tier::Thorough => {
                prop_loop(ctx, rec, "single", strategy(1), ctx.share(60000), judge);
                prop_loop(ctx, rec, "pair", strategy(2), ctx.share(20000), judge);
            }
        }
    }
    fn replay(&self, _ctx: &Ctx, _sub: &str, case: &Value) -> Verdict {
        match serde_json::from_value::<Case>(case.clone()) {
            Ok(c) => judge(&c, &mut Rec::default()),
            Err(e) => Verdict::Inconclusive(format!("bad case: {e}")),
        }
    }
    fn min_nontrivial(&self, tier: Tier) -> usize {
        match tier {
            Tier::Quick => 1000,
            Tier::Thorough => 10000,
        }
    }
    fn required_classes(&self, _tier: Tier) -> Vec<String> {
        ["Open|src", "Open|dest", "Stat|", "Mkdir|", "Symlink|", "Ftruncate|", "CopyFileRange|", "Chmod|", "Utimens|", "Getdents|", "Readlink|", "|walker|", "|worker|", "|dispatcher|", "|main|"].iter().map(|s| s.to_string()).collect()
    }
}
