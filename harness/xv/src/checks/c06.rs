//! C06 — outcome is independent of thread interleaving, worker count and driver.

use super::c02::{self, DestSpec, GlobMode, MutKind, SrcKind, SrcSpec};
use super::c03::is_mutating;
use super::c04::apply_opts;
use super::tree::*;
use super::{Check, Needs};
use crate::engine::*;
use crate::model::{self, Plan};
use crate::run::*;
use crate::sandbox::*;
use crate::sup::*;
use crate::util::*;
use proptest::prelude::*;
use serde::{Deserialize, Serialize};
use serde_json::{json, Value};
use std::collections::{BTreeMap, BTreeSet};
use std::path::PathBuf;

pub struct C06;

#[derive(Clone, Debug, Serialize, Deserialize)]
pub struct RunCfg {
    pub parblock: bool,
    pub workers: u8,
    pub kind: u8,
    pub seed: u64,
    pub change_points: Vec<u16>,
    /// stall the walker at its k-th directory read / readlink for this many milliseconds
    #[serde(default)]
    pub stall: Option<(u8, u16)>,
    /// copy_file_range is unavailable for the whole run (1 EXDEV, 2 ENOSYS, 3 EPERM; 0 = available): the
    /// documented user-space fallback copies every block; the outcome must not change
    #[serde(default)]
    pub cfr: u8,
}

#[derive(Clone, Debug, Serialize, Deserialize)]
pub struct Case {
    pub base: c02::Case,
    pub opts: u8,
    pub runs: Vec<RunCfg>,
}

const WORKERS: &[u8] = &[1, 2, 3, 4, 8, 16, 64];

pub fn sched_of(r: &RunCfg) -> Sched {
    let kind = match r.kind % 8 {
        0 | 1 | 2 => SchedKind::Random,
        3 => SchedKind::WalkerFirst,
        4 => SchedKind::WorkersFirst,
        5 => SchedKind::StarveWorker((r.seed % 4) as usize % std::cmp::max(1, r.workers as usize)),
        6 => SchedKind::Random,
        _ => SchedKind::Free,
    };
    Sched { kind, seed: r.seed, change_points: r.change_points.iter().map(|c| *c as usize).collect(), parblock: r.parblock }
}

/// a long pause of the walker in the middle of the walk (timeouts, "queue went quiet" assumptions)
pub fn stall_rules(r: &RunCfg) -> Vec<Rule> {
    let mut v = match r.stall {
        Some((k, ms)) => vec![Rule { sys: vec![Sys::Getdents, Sys::Readlink], path: PathSel::Sandbox, nth: Nth::Kth(k as usize), action: Action::Delay(ms as u64) }],
        None => vec![],
    };
    if let Some(e) = cfr_errno(r) {
        v.push(Rule { sys: vec![Sys::CopyFileRange], path: PathSel::Sandbox, nth: Nth::All, action: Action::Errno(e) });
    }
    v
}

pub fn cfr_errno(r: &RunCfg) -> Option<i32> {
    match r.cfr {
        1 => Some(libc::EXDEV),
        2 => Some(libc::ENOSYS),
        3 => Some(libc::EPERM),
        _ => None,
    }
}

pub fn base_strategy() -> BoxedStrategy<c02::Case> {
    let src = (0..TOP_SAFE as u8, prop::collection::vec(gent(NAMES.len(), true), 8..28)).prop_map(|(name, g)| SrcSpec { name, kind: SrcKind::Tree(g), spell: Spell::Plain });
    let mk = prop_oneof![3 => Just(MutKind::Differ), 1 => Just(MutKind::Same)];
    let dest = prop_oneof![
        3 => Just(DestSpec::Absent),
        3 => Just(DestSpec::EmptyDir),
        2 => (prop::collection::vec((any::<u16>(), mk), 1..8), 0u8..3).prop_map(|(m, x)| DestSpec::Populated(m, x)),
    ];
    (prop::collection::vec(src, 1..3), dest, prop_oneof![1 => Just(Some(1024u64)), 3 => Just(Some(4096u64)), 2 => Just(Some(65536u64)), 1 => Just(None)], prop::bool::weighted(0.1), prop::bool::weighted(0.5), prop::bool::weighted(0.15))
        .prop_map(|(srcs, dest, block, no_target_dir, nolinks, dup)| { let mut srcs = srcs; if dup && srcs.len() == 1 { let mut s2 = srcs[0].clone(); s2.name = s2.name.wrapping_add(1); srcs.push(s2); } let dest = if dup && matches!(dest, DestSpec::Absent) { DestSpec::EmptyDir } else { dest }; c02::Case {
            srcs,
            dest,
            dest_spell: Spell::Plain,
            flags: (false, 4, block),
            no_target_dir,
            target_dir_opt: false,
            glob: GlobMode::Off,
            nolinks,
            extra: 0,
            dest_via_link: false,
            dup_basename: dup,
        } })
        .boxed()
}

pub fn run_cfg() -> BoxedStrategy<RunCfg> {
    (any::<bool>(), 0..WORKERS.len(), 0u8..8, any::<u64>(), prop::collection::vec(1u16..300, 0..4), prop::option::weighted(0.04, (0u8..12, prop_oneof![Just(300u16), Just(1200u16), Just(2500u16)])), prop_oneof![6 => Just(0u8), 1 => 1u8..4])
        .prop_map(|(parblock, w, kind, seed, mut change_points, stall, cfr)| {
            if cfr != 0 {
                // the fallback issues several calls per block: more priority changes so that some land inside a block copy
                for i in 0..5u64 {
                    change_points.push(1 + (crate::util::splitmix(seed ^ i) % 500) as u16);
                }
            }
            RunCfg { parblock, workers: WORKERS[w], kind, seed, change_points, stall, cfr }
        })
        .boxed()
}

pub fn strategy(nruns: usize) -> BoxedStrategy<Case> {
    (base_strategy(), prop_oneof![4 => Just(0u8), 1 => Just(1u8), 1 => Just(2u8), 1 => Just(4u8), 1 => Just(6u8)], prop::collection::vec(run_cfg(), nruns..=nruns))
        .prop_map(|(base, opts, mut runs)| {
            // make sure both drivers occur; the environment (is copy_file_range usable?) is the same for every run of a case
            let cfr = runs[0].cfr;
            for (i, r) in runs.iter_mut().enumerate() {
                if i < 2 {
                    r.parblock = i == 1;
                }
                if r.cfr == 0 && cfr != 0 {
                    for k in 0..5u64 {
                        r.change_points.push(1 + (crate::util::splitmix(r.seed ^ k) % 500) as u16);
                    }
                }
                r.cfr = cfr;
            }
            Case { base, opts, runs }
        })
        .boxed()
}

pub fn sup_spec(sb: &Sandbox, args: Vec<Vec<u8>>, rules: Vec<Rule>, sched: Sched) -> SupSpec {
    SupSpec {
        bin: PathBuf::from(XCP_BIN),
        args,
        cwd: sb.root.clone(),
        umask: 0o022,
        nofile: None,
        timeout: std::time::Duration::from_secs(60),
        out_dir: sb.out.clone(),
        root: sb.rootb(),
        extra_roots: vec![],
        rules,
        sched,
        log_all: false,
        extra_env: vec![],
        stdout_to: None,
    }
}

/// what of a destination entry must agree between runs
fn dest_view(post: &Snap, under: &[u8], with_mtime: bool, root: &[u8]) -> BTreeMap<Vec<u8>, String> {
    let root_s = esc(root);
    let mut v = BTreeMap::new();
    for (p, m) in post {
        if p.as_slice() == under || (p.starts_with(under) && p.get(under.len()) == Some(&b'/')) {
            let s = match m.kind {
                K::F => format!("F size={} hash={:?} mode={:o} mtime={}", m.size, m.hash, m.mode, if with_mtime { format!("{:?}", m.mtime) } else { "-".into() }),
                // absolute link targets contain the (per-run) sandbox root
                K::L => format!("L -> {:?}", m.link.as_ref().map(|l| l.replace(&root_s, "<ROOT>"))),
                K::D => format!("D mode={:o}", m.mode),
                k => format!("{:?} rdev={} mode={:o}", k, m.rdev, m.mode),
            };
            v.insert(p.clone(), s);
        }
    }
    v
}

pub struct OneRun {
    pub exit_ok: bool,
    pub code: Option<i32>,
    pub view: BTreeMap<Vec<u8>, String>,
    pub model_diffs: Vec<String>,
    pub trace_violation: Option<String>,
    pub order_hash: u64,
    pub nthreads: usize,
    pub valve: usize,
    pub stderr: String,
    pub multi_block: bool,
}

/// per destination file: metadata calls only after the last data-writing call; nothing is created in a
/// directory that does not exist yet
pub fn trace_invariants(log: &[Ev], root: &[u8]) -> Option<String> {
    let mut last_write: BTreeMap<&[u8], u64> = BTreeMap::new();
    for e in log {
        if let Some(p) = &e.path {
            if !p.starts_with(root) {
                continue;
            }
            if (e.sys.is_data_write() || (e.sys == Sys::Ficlone && e.ok())) && e.ok() {
                let t = last_write.entry(p.as_slice()).or_insert(0);
                if e.t_out > *t {
                    *t = e.t_out;
                }
            }
            if matches!(e.sys, Sys::Open | Sys::Symlink | Sys::Mknod) && (e.sys != Sys::Open || (e.flags & libc::O_CREAT as u64) != 0) && e.errno() == libc::ENOENT {
                return Some(format!("creation inside a directory that does not exist (yet): {}", e.short()));
            }
        }
    }
    for e in log {
        if matches!(e.sys, Sys::Chmod | Sys::Utimens | Sys::Chown | Sys::Setxattr) {
            if let Some(p) = &e.path {
                if let Some(t) = last_write.get(p.as_slice()) {
                    if e.t_in < *t {
                        return Some(format!("metadata applied before the last data write finished (write ends at stamp {}): {}", t, e.short()));
                    }
                }
            }
        }
    }
    None
}

pub fn one_run(c: &Case, r: &RunCfg, rec: &mut Rec) -> Result<Option<OneRun>, String> {
    let sb = Sandbox::new().map_err(|e| format!("sandbox: {e}"))?;
    let root = sb.rootb();
    let mut base = c.base.clone();
    base.flags = (r.parblock, r.workers, c.base.flags.2);
    let mut b = c02::build(&base, &root);
    apply_opts(&mut b.inv, c.opts, 0);
    materialise(&sb.root, &b.ents).map_err(|e| format!("materialise: {e}"))?;
    let pre = snapshot(&sb.root).map_err(|e| format!("snapshot: {e}"))?;
    let mapped = match model::plan(&pre, &root, &b.inv) {
        Plan::Copy(m) => m,
        _ => return Ok(None),
    };
    let out = Sup::run(sup_spec(&sb, b.inv.argv(), stall_rules(r), sched_of(r)));
    rec.eval(1);
    if r.stall.is_some() {
        rec.class(format!("stall|{}ms|fired={}", r.stall.unwrap().1, out.fired.first().copied().unwrap_or(0) > 0));
    }
    if let Some(e) = cfr_errno(r) {
        rec.class(format!("copy_file_range-unavailable|errno{}|{}|fired={}", e, if r.parblock { "parblock" } else { "parfile" }, out.fired.last().copied().unwrap_or(0) > 0));
    }
    if let Some(e) = out.setup_error {
        return Err(format!("supervisor: {e}"));
    }
    if out.timed_out {
        return Err(format!("watchdog: {}", out.hang_state.unwrap_or_default()));
    }
    let post = snapshot(&sb.root).map_err(|e| format!("snapshot: {e}"))?;
    let o = model::CmpOpts { check_mode: !b.inv.no_perms, check_mtime: !b.inv.no_timestamps, allow_new: None, ignore_unmapped_changes_under: None };
    let model_diffs = if out.ok() { model::compare_success(&pre, &post, &mapped, &o) } else { vec![] };
    let mut h = Hash2::new();
    let mut muts: Vec<&Ev> = out.log.iter().filter(|e| is_mutating(e) && e.path.as_ref().map(|p| p.starts_with(&root)).unwrap_or(false)).collect();
    muts.sort_by_key(|e| e.t_in);
    for e in &muts {
        h.bytes(format!("{:?}", e.sys).as_bytes());
        h.bytes(&e.path.as_ref().unwrap()[root.len()..]);
    }
    let bs = b.inv.block.unwrap_or(1_000_000);
    let multi_block = mapped.iter().any(|m| m.kind == K::F && pre[&m.src].size > bs);
    Ok(Some(OneRun {
        exit_ok: out.ok(),
        code: out.code,
        view: dest_view(&post, b"d", !b.inv.no_timestamps, &root),
        model_diffs,
        trace_violation: trace_invariants(&out.log, &root),
        order_hash: h.fin().0,
        nthreads: out.threads,
        valve: out.valve_releases,
        stderr: String::from_utf8_lossy(&out.stderr).chars().take(300).collect(),
        multi_block,
    }))
}

pub fn judge(c: &Case, rec: &mut Rec) -> Verdict {
    let mut results: Vec<(usize, OneRun)> = vec![];
    for (i, r) in c.runs.iter().enumerate() {
        match one_run(c, r, rec) {
            Ok(Some(o)) => results.push((i, o)),
            Ok(None) => {
                rec.count("not_a_copy_plan", 1);
                return Verdict::Pass;
            }
            Err(e) => return Verdict::Inconclusive(e),
        }
    }
    if results.is_empty() {
        return Verdict::Pass;
    }
    let descr = |i: usize| {
        let r = &c.runs[i];
        format!("{} w={} sched={:?}", if r.parblock { "parblock" } else { "parfile" }, r.workers, sched_of(r).kind)
    };
    rec.count("valve_releases", results.iter().map(|(_, o)| o.valve as i64).sum());
    // (3) trace invariants on every run
    for (i, o) in &results {
        if let Some(v) = &o.trace_violation {
            let what = if v.starts_with("creation") { "create-before-dir" } else { "metadata-before-last-write" };
            return Verdict::faild(
                format!("C06|trace|{}|{}", if c.runs[*i].parblock { "parblock" } else { "parfile" }, what),
                format!("{} ({})", v, descr(*i)),
                json!({"run": descr(*i)}),
            );
        }
    }
    // (1) same exit class
    let (i0, o0) = &results[0];
    for (i, o) in &results[1..] {
        if o.exit_ok != o0.exit_ok {
            let same_driver = c.runs[*i].parblock == c.runs[*i0].parblock;
            return Verdict::faild(
                format!("C06|exit-status-differs|{}", if same_driver { "same-driver" } else { "across-drivers" }),
                format!("exit status depends on the run: [{}] exits {:?}, [{}] exits {:?}", descr(*i0), o0.code, descr(*i), o.code),
                json!({"stderr_a": o0.stderr, "stderr_b": o.stderr}),
            );
        }
    }
    // classes + non-triviality
    let maxthreads = results.iter().map(|(_, o)| o.nthreads).max().unwrap_or(0);
    let mut orders: BTreeMap<bool, BTreeSet<u64>> = BTreeMap::new();
    for (i, o) in &results {
        orders.entry(c.runs[*i].parblock).or_default().insert(o.order_hash);
    }
    let distinct_orders = orders.values().map(|s| s.len()).max().unwrap_or(0);
    let multi = results.iter().any(|(_, o)| o.multi_block);
    let nfiles = o0.view.values().filter(|v| v.starts_with('F')).count();
    let key = format!("exit={}|orders={}|multiblock={}|files={}", if o0.exit_ok { "0" } else { "!0" }, std::cmp::min(distinct_orders, 4), multi, if nfiles >= 8 { ">=8" } else { "<8" });
    let new = rec.class(key);
    if c.base.dup_basename {
        rec.class(format!("same-basename-sources|exit={}", if o0.exit_ok { "0" } else { "!0" }));
    }
    for r in &c.runs {
        rec.class(format!("run|{}|w{}|{:?}", if r.parblock { "parblock" } else { "parfile" }, r.workers, sched_of(r).kind).split('(').next().unwrap().to_string());
    }
    if maxthreads >= 4 && distinct_orders >= 2 && (multi || nfiles >= 8) {
        for (i, o) in &results {
            rec.nontrivial(case_hash(&(&c.base, c.runs[*i].parblock, o.order_hash)));
        }
    }
    if new {
        rec.sample(json!({"runs": c.runs.iter().map(|r| format!("{} w={} {:?} seed={}", if r.parblock { "parblock" } else { "parfile" }, r.workers, sched_of(r).kind, r.seed)).collect::<Vec<_>>(),
            "dest_entries": o0.view.len(), "distinct_orders_same_driver": distinct_orders, "exit": o0.code}));
    }
    if !o0.exit_ok {
        return Verdict::Pass; // where an abort lands legitimately depends on the schedule
    }
    // (2) identical destinations, equal to the model
    for (i, o) in &results {
        if !o.model_diffs.is_empty() {
            return Verdict::faild(
                format!("C06|model|{}", if c.runs[*i].parblock { "parblock" } else { "parfile" }),
                format!("run [{}] exits 0 but differs from the model: {}", descr(*i), o.model_diffs.iter().take(3).cloned().collect::<Vec<_>>().join("; ")),
                json!({"diffs": o.model_diffs.iter().take(10).collect::<Vec<_>>()}),
            );
        }
    }
    for (i, o) in &results[1..] {
        if o.view != o0.view {
            let mut d = vec![];
            for (p, v) in &o0.view {
                if o.view.get(p) != Some(v) {
                    d.push(format!("{}: {} vs {:?}", esc(p), v, o.view.get(p)));
                }
            }
            for p in o.view.keys() {
                if !o0.view.contains_key(p) {
                    d.push(format!("{}: only in second run", esc(p)));
                }
            }
            return Verdict::faild(
                "C06|destinations-differ".to_string(),
                format!("final destination depends on the run: [{}] vs [{}]: {}", descr(*i0), descr(*i), d.iter().take(3).cloned().collect::<Vec<_>>().join("; ")),
                json!({"diffs": d.iter().take(10).collect::<Vec<_>>()}),
            );
        }
    }
    Verdict::Pass
}

impl Check for C06 {
    fn id(&self) -> &'static str {
        "C06"
    }
    fn rule(&self) -> String {
        "proptest-generated trees (1-2 source trees of 8-36 entries: many small files, files of up to ~140 KB that span up to 137 blocks at the generated block size 1 KiB/4 KiB/64 KiB/default, nested dirs, links) x destination fresh/empty/pre-populated x metadata options; each case is executed 6 (thorough: 24) times under the ptrace supervisor's priority scheduler with generated (driver, workers in {1,2,3,4,8,16,64}, schedule kind in {random priorities, walker-first, workers-first, one starved worker, free}, seed, priority change points; in 4 % of the runs the walker is additionally stalled for 0.3/1.2/2.5 s of wall-clock time at a generated directory read; in a seventh of the cases copy_file_range is unavailable (EXDEV/ENOSYS/EPERM on every call, the same for all runs of the case) so that every block goes through the user-space fallback, with five more change points). Oracle: all runs have the same exit class; if 0, all final destinations are identical (paths, kinds, bytes, link text, mode, mtime) across schedules, worker counts and drivers and equal the reference model; on every run no creation call in the destination returns ENOENT and every chmod/utimens/chown/setxattr on a destination file starts after its last data write returned. Non-trivial: >=4 threads, >=2 distinct observed orders of destination-mutating calls within one driver, and (multi-block file or >=8 files); distinct_nontrivial counts distinct (case, driver, order) triples.".into()
    }
    fn assumptions(&self) -> Vec<String> {
        vec!["schedules are controlled at system-call granularity only; sources never share a basename".into()]
    }
    fn needs(&self) -> Needs {
        Needs { xcp: true, probe: false, fallback: false }
    }
    fn run_shard(&self, ctx: &Ctx, rec: &mut Rec) {
        match ctx.tier {
            Tier::Quick => prop_loop(ctx, rec, "sched", strategy(6), ctx.share(600), judge),
            Tier::Thorough => prop_loop(ctx, rec, "sched", strategy(24), ctx.share(2000), judge),
        }
    }
    fn replay(&self, ctx: &Ctx, _sub: &str, case: &Value) -> Verdict {
        match serde_json::from_value::<Case>(case.clone()) {
            Ok(c) => {
                // schedules reproduce only approximately: a replay fails if any of 3 attempts fails
                let mut last = Verdict::Pass;
                for _ in 0..ctx.replay_attempts {
                    last = judge(&c, &mut Rec::default());
                    if matches!(last, Verdict::Fail(..)) {
                        return last;
                    }
                }
                last
            }
            Err(e) => Verdict::Inconclusive(format!("bad case: {e}")),
        }
    }
    fn min_nontrivial(&self, tier: Tier) -> usize {
        match tier {
            Tier::Quick => 200,
            Tier::Thorough => 2000,
        }
    }
    fn required_classes(&self, _tier: Tier) -> Vec<String> {
        ["run|parblock|w64", "run|parfile|w1|", "WalkerFirst", "WorkersFirst", "StarveWorker", "multiblock=true", "orders=4", "stall|1200ms|fired=true", "stall|2500ms|fired=true", "same-basename-sources", "copy_file_range-unavailable|errno18|parblock|fired=true"].iter().map(|s| s.to_string()).collect()
    }
}
