//! C10 — permissions, timestamps, xattrs and ownership are preserved as requested.

use super::c06::sup_spec;
use super::gen;
use super::{Check, Needs};
use crate::engine::*;
use crate::run::*;
use crate::sandbox::*;
use crate::spec::*;
use crate::sup::*;
use crate::util::*;
use proptest::prelude::*;
use serde::{Deserialize, Serialize};
use serde_json::{json, Value};

pub struct C10;

pub const MTIMES: &[(i64, u32)] = &[(1, 1), (1_000_000_000, 0), (1_700_000_000, 123_456_789), (4_102_444_800, 999_999_999), (1_600_000_000, 1), (2_000_000_000, 500_000_000)];
pub const IDS: &[u32] = &[0, 1, 1000, 65534];
// in util::esc form: the last two are not valid UTF-8 (Latin-1 e-acute; raw 0xff 0xfe)
const XNAMES: &[&str] = &["user.a", "user.xv.test", "user.mime_type", "user.\u{e9}", "user.caf\\xe9", "user.\\xff\\xfe.raw"];

#[derive(Clone, Debug, Serialize, Deserialize)]
pub struct FileMeta {
    pub len: u32,
    pub mode: u16,
    pub mtime: u8,
    /// (name index, value kind: 0 empty, 1 short text, 2 binary with NULs, 3 ~3000 bytes)
    pub xattrs: Vec<(u8, u8)>,
    pub uid: u8,
    pub gid: u8,
    /// pre-existing destination: (mode 0..0777, mtime index, length)
    pub prior: Option<(u16, u8, u32)>,
    /// owner of the pre-existing destination (indices into IDS)
    #[serde(default)]
    pub prior_owner: Option<(u8, u8)>,
    /// the pre-existing destination already has exactly the source's mode, special bits included (second run of
    /// the same copy); only used when permissions are copied
    #[serde(default)]
    pub prior_same_mode: bool,
}

#[derive(Clone, Debug, Serialize, Deserialize)]
pub struct Case {
    pub files: Vec<FileMeta>,
    pub no_perms: bool,
    pub no_timestamps: bool,
    pub ownership: bool,
    pub umask: u8,
    pub parblock: bool,
    pub workers: u8,
    pub block: Option<u64>,
    /// run under the supervisor with one starved worker
    pub starve: Option<u64>,
    /// copy the first file alone: `xcp s/f0 d/s/f0` (file to file) instead of the tree
    #[serde(default)]
    pub single: bool,
    /// further options that must not matter: bit0 --fsync, bit1 --backup=numbered, bit2 --reflink=never, bit3 -v
    #[serde(default)]
    pub extra: u8,
    /// the destination directory d/s is set-group-ID with this group (index into IDS): new files inherit it
    #[serde(default)]
    pub setgid_dir: Option<u8>,
}

fn mode_strategy() -> BoxedStrategy<u16> {
    prop_oneof![
        6 => 0u16..0o10000,
        1 => Just(0u16),
        1 => (0u16..0o1000).prop_map(|m| m | 0o4000),
        1 => (0u16..0o1000).prop_map(|m| m | 0o2000),
        1 => (0u16..0o1000).prop_map(|m| m | 0o1000),
        1 => Just(0o7777u16),
        1 => Just(0o4755u16),
        1 => Just(0o2755u16),
    ]
    .boxed()
}

fn file_meta() -> BoxedStrategy<FileMeta> {
    (
        prop_oneof![1 => Just(0u32), 5 => 1u32..3000, 3 => 5000u32..200000],
        mode_strategy(),
        0..MTIMES.len() as u8,
        prop::collection::vec((0..XNAMES.len() as u8, 0u8..4), 0..4),
        0..IDS.len() as u8,
        0..IDS.len() as u8,
        prop::option::weighted(0.4, (0u16..0o1000, 0..MTIMES.len() as u8, 0u32..10000)),
        prop::option::weighted(0.5, (0..IDS.len() as u8, 0..IDS.len() as u8)),
        prop::bool::weighted(0.3),
        prop::bool::weighted(0.3),
    )
        .prop_map(|(len, mode, mtime, xattrs, uid, gid, prior, prior_owner, same_id, prior_same_mode)| FileMeta { len, mode, mtime, xattrs, uid, gid: if same_id { uid } else { gid }, prior, prior_owner, prior_same_mode })
        .boxed()
}

pub fn strategy() -> BoxedStrategy<Case> {
    (
        prop::collection::vec(file_meta(), 1..4),
        prop::bool::weighted(0.25),
        prop::bool::weighted(0.25),
        prop::bool::weighted(0.4),
        0u8..3,
        any::<bool>(),
        gen::workers(),
        prop_oneof![2 => Just(None), 2 => Just(Some(4096u64)), 1 => Just(Some(65536u64))],
        prop::option::weighted(0.1, any::<u64>()),
        prop::bool::weighted(0.25),
        prop_oneof![3 => Just(0u8), 2 => 0u8..16],
        prop::option::weighted(0.2, 0..IDS.len() as u8),
    )
        .prop_map(|(files, no_perms, no_timestamps, ownership, umask, parblock, workers, block, starve, single, extra, setgid_dir)| Case { files, no_perms, no_timestamps, ownership, umask, parblock, workers, block, starve, single, extra, setgid_dir })
        .boxed()
}

fn xval(kind: u8, salt: u8) -> Vec<u8> {
    match kind % 4 {
        0 => vec![],
        1 => format!("text/plain; {}", salt).into_bytes(),
        2 => vec![0, 1, 2, 0, 255, salt, 0],
        _ => (0..3000u32).map(|i| (i as u8).wrapping_mul(7).wrapping_add(salt)).collect(),
    }
}

pub fn umask_of(c: &Case) -> u32 {
    [0o000, 0o022, 0o077][c.umask as usize % 3]
}

pub fn ents_for(c: &Case) -> Vec<Ent> {
    let mut ents = vec![Ent::dir(b"s"), Ent::dir(b"d")];
    if c.single || c.setgid_dir.is_some() || c.files.iter().any(|f| f.prior.is_some()) {
        let mut d = Ent::dir(b"d/s");
        if let Some(g) = c.setgid_dir {
            d.mode = Some(0o2775);
            d.owner = Some((0, IDS[g as usize % IDS.len()]));
        }
        ents.push(d);
    }
    for (i, f) in c.files.iter().enumerate() {
        let mut e = Ent::file(format!("s/f{}", i).as_bytes(), Content::data(f.len as u64, i as u8));
        e.mode = Some(f.mode as u32);
        e.mtime = Some(MTIMES[f.mtime as usize % MTIMES.len()]);
        e.owner = Some((IDS[f.uid as usize % IDS.len()], IDS[f.gid as usize % IDS.len()]));
        let mut seen = vec![];
        let mut big = false;
        for (n, k) in &f.xattrs {
            let name = XNAMES[*n as usize % XNAMES.len()];
            if seen.contains(&name) {
                continue;
            }
            let mut k = *k;
            if k % 4 == 3 {
                if big {
                    k = 1;
                }
                big = true;
            }
            seen.push(name);
            e.xattrs.push((name.to_string(), xval(k, *n)));
        }
        ents.push(e);
        if let Some((pm, pt, pl)) = f.prior {
            let mut p = Ent::file(format!("d/s/f{}", i).as_bytes(), Content::data(pl as u64, 30 + i as u8));
            p.mode = Some(if f.prior_same_mode && !c.no_perms { f.mode as u32 } else { pm as u32 });
            p.mtime = Some(MTIMES[pt as usize % MTIMES.len()]);
            if let Some((pu, pg)) = f.prior_owner {
                p.owner = Some((IDS[pu as usize % IDS.len()], IDS[pg as usize % IDS.len()]));
            }
            ents.push(p);
        }
    }
    ents
}

pub fn args_for(c: &Case) -> Vec<Vec<u8>> {
    let s = |x: &str| x.as_bytes().to_vec();
    let mut a = vec![s("--driver"), s(if c.parblock { "parblock" } else { "parfile" }), s("--workers"), c.workers.to_string().into_bytes()];
    if let Some(b) = c.block {
        a.extend([s("--block-size"), b.to_string().into_bytes()]);
    }
    if c.no_perms {
        a.push(s("--no-perms"));
    }
    if c.no_timestamps {
        a.push(s("--no-timestamps"));
    }
    if c.ownership {
        a.push(s("--ownership"));
    }
    for (bit, flag) in [(0, "--fsync"), (1, "--backup=numbered"), (2, "--reflink=never"), (3, "-v")] {
        if c.extra & (1 << bit) != 0 {
            a.push(s(flag));
        }
    }
    if c.single {
        a.extend([s("s/f0"), s("d/s/f0")]);
    } else {
        a.extend([s("-r"), s("s"), s("d")]);
    }
    a
}

pub fn judge(c: &Case, rec: &mut Rec) -> Verdict {
    let sb = match Sandbox::new() {
        Ok(s) => s,
        Err(e) => return Verdict::Inconclusive(format!("sandbox: {e}")),
    };
    if let Err(e) = materialise(&sb.root, &ents_for(c)) {
        return Verdict::Inconclusive(format!("materialise: {e}"));
    }
    // markers on the same filesystem bracket the run (no wall-clock read)
    let mb = sb.out.join("marker_before");
    let ma = sb.out.join("marker_after");
    if write_file(&mb, b"x").is_err() {
        return Verdict::Inconclusive("marker".into());
    }
    let args = args_for(c);
    // the one destination file whose (first) setxattr was refused with EOPNOTSUPP: a documented warning for that file,
    // every other file must still carry its attributes
    let mut xattr_exempt: Option<Vec<u8>> = None;
    let (ok, timed_out, stderr) = if let Some(seed) = c.starve {
        let rules = if seed % 3 == 0 { vec![Rule { sys: vec![Sys::Setxattr], path: PathSel::Sandbox, nth: Nth::Kth(0), action: Action::Errno(libc::EOPNOTSUPP) }] } else { vec![] };
        let mut spec = sup_spec(&sb, args.clone(), rules, Sched { kind: SchedKind::StarveWorker((seed % 4) as usize), seed, change_points: vec![], parblock: c.parblock });
        spec.umask = umask_of(c);
        let o = Sup::run(spec);
        if o.setup_error.is_some() {
            return Verdict::Inconclusive(format!("supervisor {:?}", o.setup_error));
        }
        if let Some(e) = o.log.iter().find(|e| e.act.is_some() && e.sys == Sys::Setxattr) {
            xattr_exempt = e.path.clone();
            rec.class("one-setxattr-refused-with-EOPNOTSUPP".to_string());
        }
        (o.ok(), o.timed_out, o.stderr_s())
    } else {
        let mut spec = RunSpec::xcp(args.clone(), &sb.root, &sb.out);
        spec.umask = umask_of(c);
        let o = run_plain(&spec);
        (o.ok(), o.timed_out, o.stderr_s())
    };
    rec.eval(1);
    if timed_out {
        return Verdict::Inconclusive("watchdog".into());
    }
    if write_file(&ma, b"x").is_err() {
        return Verdict::Inconclusive("marker".into());
    }
    let driver = if c.parblock { "parblock" } else { "parfile" };
    let flags = format!("{}{}{}", if c.no_perms { "P" } else { "-" }, if c.no_timestamps { "T" } else { "-" }, if c.ownership { "O" } else { "-" });
    if !ok {
        rec.class(format!("exit!=0|{}|{}", driver, flags));
        rec.count("exit_nonzero", 1);
        return Verdict::Pass;
    }
    let tb = match stat_one(&mb, false) {
        Ok(m) => m.mtime,
        Err(e) => return Verdict::Inconclusive(format!("stat marker: {e}")),
    };
    let ta = match stat_one(&ma, false) {
        Ok(m) => m.mtime,
        Err(e) => return Verdict::Inconclusive(format!("stat marker: {e}")),
    };
    let argv_s: Vec<String> = args.iter().map(|a| esc(a)).collect();
    let bs = c.block.unwrap_or(1_000_000);
    let mut nontrivial = false;
    for (i, f) in c.files.iter().enumerate() {
        if c.single && i > 0 {
            break;
        }
        let sp = sb.abs(format!("s/f{}", i).as_bytes());
        let dp = sb.abs(format!("d/s/f{}", i).as_bytes());
        let sm = match stat_one(&sp, false) {
            Ok(m) => m,
            Err(e) => return Verdict::Inconclusive(format!("stat src: {e}")),
        };
        let dm = match stat_one(&dp, false) {
            Ok(m) => m,
            Err(_) => return Verdict::faild(format!("C10|{}|missing", driver), format!("exit 0 but d/s/f{} missing", i), json!({"argv": argv_s})),
        };
        let special = f.mode & 0o7000 != 0;
        let multi = f.len as u64 > bs;
        if f.prior.is_some() && f.prior_same_mode && !c.no_perms {
            rec.class(format!("prior-has-the-source-mode|special={}|ownership={}", f.mode & 0o7000 != 0, c.ownership));
        }
        if f.xattrs.iter().any(|(n, _)| XNAMES[*n as usize % XNAMES.len()].contains("\\x")) {
            rec.class("xattr-name=non-utf8".to_string());
        }
        let key = format!(
            "{}|{}|umask{:o}|{}|{}|{}|{}|{}",
            driver,
            flags,
            umask_of(c),
            if special { format!("special{:o}", f.mode & 0o7000) } else if f.mode == 0 { "mode0".into() } else { "plain".to_string() },
            if f.xattrs.is_empty() { "noxattr" } else { "xattr" },
            if f.prior.is_some() { "overwrite" } else { "fresh" },
            if multi { "multiblock" } else { "1block" },
            if c.starve.is_some() { "starved" } else { "plain-run" }
        ) + if c.setgid_dir.is_some() { "|setgid-destdir" } else { "" } + if f.prior_owner.is_some() && f.prior.is_some() { "|prior-owner" } else { "" } + if c.single { "|single-file" } else { "" } + if c.extra != 0 { "|extra-opts" } else { "" };
        let new = rec.class(key);
        let subsec = MTIMES[f.mtime as usize % MTIMES.len()].1 != 0;
        if special || subsec || !f.xattrs.is_empty() || c.ownership || multi {
            nontrivial = true;
        }
        if new {
            rec.sample(json!({"argv": argv_s, "umask": format!("{:o}", umask_of(c)), "src_mode": format!("{:o}", sm.mode), "src_mtime": sm.mtime, "src_owner": [sm.uid, sm.gid], "xattrs": sm.xattrs.keys().collect::<Vec<_>>(), "prior": f.prior,
                "dst_mode": format!("{:o}", dm.mode), "dst_mtime": dm.mtime, "dst_owner": [dm.uid, dm.gid]}));
        }
        let fail = |what: &str, msg: String| {
            Verdict::faild(
                format!("C10|{}|{}", what, if c.ownership { "with-ownership" } else { "no-ownership" }),
                format!("exit 0 but {} (file f{}, flags {}, driver {})", msg, i, flags, driver),
                json!({"argv": argv_s, "umask": format!("{:o}", umask_of(c)), "src": {"mode": format!("{:o}", sm.mode), "mtime": sm.mtime, "uid": sm.uid, "gid": sm.gid}, "dst": {"mode": format!("{:o}", dm.mode), "mtime": dm.mtime, "uid": dm.uid, "gid": dm.gid}, "stderr": stderr}),
            )
        };
        if !c.no_perms {
            if dm.mode != sm.mode {
                let lost_special = (sm.mode & 0o7000) != (dm.mode & 0o7000) && (sm.mode & 0o777) == (dm.mode & 0o777);
                return fail(if lost_special { "special-bits-lost" } else { "mode-differs" }, format!("mode is {:o}, source has {:o}", dm.mode, sm.mode));
            }
            let exempt = xattr_exempt.as_deref() == Some(pbytes(&dp).as_slice());
            for (k, v) in &sm.xattrs {
                if !exempt && k.starts_with("user.") && dm.xattrs.get(k) != Some(v) {
                    return fail("xattr-missing", format!("xattr {} not transferred", k));
                }
            }
        } else {
            // with a numbered backup the old file is renamed away and the destination is a fresh file
            let fresh = f.prior.is_none() || c.extra & 2 != 0;
            let expect = match f.prior {
                Some((pm, _, _)) if !fresh => pm as u32,
                _ => 0o666 & !umask_of(c),
            };
            if dm.mode != expect {
                return fail("no-perms-mode", format!("--no-perms: mode is {:o}, expected {:o} (previous/default)", dm.mode, expect));
            }
        }
        if !c.no_timestamps {
            if dm.mtime != sm.mtime {
                return fail("mtime-differs", format!("mtime is {:?}, source has {:?}", dm.mtime, sm.mtime));
            }
        } else if dm.mtime < tb || dm.mtime > ta {
            return fail("no-timestamps-mtime", format!("--no-timestamps: mtime {:?} is not current (run bracketed by {:?} .. {:?})", dm.mtime, tb, ta));
        }
        if c.ownership && (dm.uid != sm.uid || dm.gid != sm.gid) {
            return fail("owner-differs", format!("owner is {}:{}, source has {}:{}", dm.uid, dm.gid, sm.uid, sm.gid));
        }
    }
    if nontrivial {
        rec.nontrivial(case_hash(c));
    }
    Verdict::Pass
}

impl Check for C10 {
    fn id(&self) -> &'static str {
        "C10"
    }
    fn rule(&self) -> String {
        "proptest-generated regular files with mode uniform over 0..07777 (forced coverage of 04000/02000/01000, 0, 07777), mtimes from 1970+1ns to 2100 with sub-second parts, 0-3 user.* xattrs (empty, text, binary with NULs, 3000 bytes; names ASCII, UTF-8 and not valid UTF-8), uid:gid in {0,1,1000,65534}, optional pre-existing destination with its own mode (0..0777, or exactly the source's mode with its special bits, as after an earlier copy), owner and mtime; flags subsets of --no-perms/--no-timestamps/--ownership; umask 0/022/077; both drivers, workers 0..16, block sizes making 1..49 blocks; a tenth of the cases under the supervisor with one starved worker, a third of those with the first setxattr refused with EOPNOTSUPP (a documented warning for that file: every other file must still carry its attributes); a quarter as a single file-to-file copy; option noise (--fsync --backup=numbered --reflink=never -v). Oracle on exit 0: mode&07777 equal, mtime equal to the nanosecond, user xattrs equal, with --ownership uid/gid equal and mode still equal; --no-perms: previous mode or 0666&~umask; --no-timestamps: mtime between two marker files touched around the run on the same filesystem. Non-trivial: exit 0 and (special bit or sub-second mtime or xattr or ownership or multi-block); distinct by case hash.".into()
    }
    fn assumptions(&self) -> Vec<String> {
        vec!["runs as root with CAP_CHOWN/CAP_FSETID (the privileged branch the property names); pre-existing destination modes limited to 0..0777".into()]
    }
    fn needs(&self) -> Needs {
        Needs { xcp: true, probe: false, fallback: false }
    }
    fn run_shard(&self, ctx: &Ctx, rec: &mut Rec) {
        let total = match ctx.tier {
            Tier::Quick => 10000,
            Tier::Thorough => 200000,
        };
        prop_loop(ctx, rec, "gen", strategy(), ctx.share(total), judge);
    }
    fn replay(&self, _ctx: &Ctx, _sub: &str, case: &Value) -> Verdict {
        match serde_json::from_value::<Case>(case.clone()) {
            Ok(c) => judge(&c, &mut Rec::default()),
            Err(e) => Verdict::Inconclusive(format!("bad case: {e}")),
        }
    }
    fn min_nontrivial(&self, tier: Tier) -> usize {
        match tier {
            Tier::Quick => 1000,
            Tier::Thorough => 10000,
        }
    }
    fn required_classes(&self, _tier: Tier) -> Vec<String> {
        ["special4000", "special2000", "special1000", "mode0", "|xattr|", "|overwrite|", "multiblock", "starved", "|P", "T", "O|", "umask0|", "umask77|", "single-file", "extra-opts", "setgid-destdir", "prior-owner", "xattr-name=non-utf8", "prior-has-the-source-mode|special=true|ownership=true", "one-setxattr-refused-with-EOPNOTSUPP"].iter().map(|s| s.to_string()).collect()
    }
}
