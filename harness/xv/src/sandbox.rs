//! Materialise specs on disk; take recursive snapshots of a directory tree.

use crate::spec::*;
use crate::util::*;
use serde::{Deserialize, Serialize};
use std::collections::BTreeMap;
use std::fs::{self, File, OpenOptions};
use std::io::{self, Read, Write};
use std::os::unix::fs::{FileExt, MetadataExt, OpenOptionsExt};
use std::os::unix::io::AsRawFd;
use std::path::{Path, PathBuf};
use std::sync::atomic::{AtomicU64, Ordering};

static COUNTER: AtomicU64 = AtomicU64::new(0);

pub struct Sandbox {
    pub base: PathBuf,
    /// the directory that is snapshotted and in which xcp runs
    pub root: PathBuf,
    /// scratch for stderr files etc (not snapshotted)
    pub out: PathBuf,
    pub keep: bool,
}

impl Sandbox {
    pub fn new_in(parent: &str) -> io::Result<Sandbox> {
        let n = COUNTER.fetch_add(1, Ordering::SeqCst);
        let base = PathBuf::from(format!("{}/xv-{}-{}", parent, std::process::id(), n));
        let _ = remove_tree(&base);
        fs::create_dir_all(base.join("root"))?;
        fs::create_dir_all(base.join("out"))?;
        Ok(Sandbox { root: base.join("root"), out: base.join("out"), base, keep: false })
    }
    pub fn new() -> io::Result<Sandbox> {
        Sandbox::new_in(&scratch_parent())
    }
    pub fn rootb(&self) -> Vec<u8> {
        pbytes(&self.root)
    }
    pub fn abs(&self, rel: &[u8]) -> PathBuf {
        pb(&join(&self.rootb(), rel))
    }
}

pub fn scratch_parent() -> String {
    std::env::var("XV_SCRATCH").unwrap_or_else(|_| "/tmp".to_string())
}

impl Drop for Sandbox {
    fn drop(&mut self) {
        if !self.keep {
            let _ = remove_tree(&self.base);
            if self.base.exists() {
                // trees deeper than PATH_MAX cannot be removed through absolute paths: rm descends with openat()
                let _ = std::process::Command::new("rm").arg("-rf").arg(&self.base).status();
            }
        }
    }
}

pub fn remove_tree(p: &Path) -> io::Result<()> {
    match fs::symlink_metadata(p) {
        Err(_) => return Ok(()),
        Ok(m) => {
            if m.is_dir() {
                // make sure we can list it
                let _ = fs::set_permissions(p, std::os::unix::fs::PermissionsExt::from_mode(0o700));
                if let Ok(rd) = fs::read_dir(p) {
                    for e in rd.flatten() {
                        let _ = remove_tree(&e.path());
                    }
                }
                fs::remove_dir(p)
            } else {
                fs::remove_file(p)
            }
        }
    }
}

fn check(r: i32, what: &str, path: &Path) -> io::Result<()> {
    if r != 0 {
        let e = io::Error::last_os_error();
        return Err(io::Error::new(e.kind(), format!("{} {:?}: {}", what, path, e)));
    }
    Ok(())
}

pub fn write_content(path: &Path, c: &Content) -> io::Result<()> {
    let f = OpenOptions::new().write(true).create(true).truncate(true).mode(0o644).open(path)?;
    write_content_fd(&f, c)
}

pub fn write_content_fd(f: &File, c: &Content) -> io::Result<()> {
    let mut off = 0u64;
    let mut buf = vec![0u8; 1 << 16];
    for s in &c.segs {
        match s {
            Seg::Data(l, seed) => {
                let mut done = 0u64;
                while done < *l {
                    let n = std::cmp::min(buf.len() as u64, l - done) as usize;
                    fill_pattern(&mut buf[..n], off + done, *seed);
                    f.write_all_at(&buf[..n], off + done)?;
                    done += n as u64;
                }
                off += l;
            }
            Seg::Zero(l) => {
                let z = vec![0u8; 1 << 16];
                let mut done = 0u64;
                while done < *l {
                    let n = std::cmp::min(z.len() as u64, l - done) as usize;
                    f.write_all_at(&z[..n], off + done)?;
                    done += n as u64;
                }
                off += l;
            }
            Seg::Hole(l) => off += l,
            Seg::PreData(l, _, _) if *l == 0 => {}
            Seg::PreData(l, d, seed) => {
                let d = &std::cmp::min(*d, *l);
                // preallocate (unwritten extent), then write into its beginning
                let r = unsafe { libc::fallocate(f.as_raw_fd(), 0, off as i64, *l as i64) };
                if r != 0 {
                    return Err(io::Error::last_os_error());
                }
                let mut done = 0u64;
                while done < *d {
                    let n = std::cmp::min(buf.len() as u64, d - done) as usize;
                    fill_pattern(&mut buf[..n], off + done, *seed);
                    f.write_all_at(&buf[..n], off + done)?;
                    done += n as u64;
                }
                off += l;
            }
        }
    }
    f.set_len(off)?;
    if c.sync {
        f.sync_all()?;
    }
    Ok(())
}

/// Create all entries below `root` (parents must come first or are created implicitly as 0755 dirs),
/// then apply modes/owners/xattrs/mtimes in reverse order so directory mtimes stick.
pub fn materialise(root: &Path, ents: &[Ent]) -> io::Result<()> {
    let rootb = pbytes(root);
    for e in ents {
        let abs = pb(&join(&rootb, &e.path));
        if let Some(par) = abs.parent() {
            if !par.exists() {
                fs::create_dir_all(par)?;
            }
        }
        let c = cstr(&pbytes(&abs));
        match &e.kind {
            Kind::Dir => {
                if !abs.is_dir() {
                    fs::create_dir(&abs)?;
                }
            }
            Kind::File(content) => write_content(&abs, content)?,
            Kind::Link(t) => std::os::unix::fs::symlink(p(t), &abs)?,
            Kind::Fifo => check(unsafe { libc::mknod(c.as_ptr(), libc::S_IFIFO | 0o644, 0) }, "mkfifo", &abs)?,
            Kind::Sock => check(unsafe { libc::mknod(c.as_ptr(), libc::S_IFSOCK | 0o644, 0) }, "mksock", &abs)?,
            Kind::Char(ma, mi) => check(
                unsafe { libc::mknod(c.as_ptr(), libc::S_IFCHR | 0o644, libc::makedev(*ma, *mi)) },
                "mkchr",
                &abs,
            )?,
            Kind::Block(ma, mi) => check(
                unsafe { libc::mknod(c.as_ptr(), libc::S_IFBLK | 0o644, libc::makedev(*ma, *mi)) },
                "mkblk",
                &abs,
            )?,
            Kind::Hard(t) => fs::hard_link(pb(&join(&rootb, t)), &abs)?,
        }
    }
    for e in ents.iter().rev() {
        let abs = pb(&join(&rootb, &e.path));
        let c = cstr(&pbytes(&abs));
        let is_link = matches!(e.kind, Kind::Link(_));
        for (k, v) in &e.xattrs {
            // names are kept in util::esc form so that non-UTF-8 names round-trip through JSON
            let kc = cstr(&unesc(k));
            let r = unsafe {
                libc::lsetxattr(c.as_ptr(), kc.as_ptr(), v.as_ptr() as *const libc::c_void, v.len(), 0)
            };
            check(r, "lsetxattr", &abs)?;
        }
        if let Some((u, g)) = e.owner {
            check(unsafe { libc::lchown(c.as_ptr(), u, g) }, "lchown", &abs)?;
        }
        if let Some(m) = e.mode {
            if !is_link {
                check(unsafe { libc::chmod(c.as_ptr(), m) }, "chmod", &abs)?;
            }
        }
    }
    for e in ents.iter().rev() {
        if let Some((s, ns)) = e.mtime {
            let abs = pb(&join(&rootb, &e.path));
            set_mtime(&abs, s, ns)?;
        }
    }
    Ok(())
}

pub fn set_mtime(abs: &Path, s: i64, ns: u32) -> io::Result<()> {
    let c = cstr(&pbytes(abs));
    let ts = [
        libc::timespec { tv_sec: s, tv_nsec: ns as i64 },
        libc::timespec { tv_sec: s, tv_nsec: ns as i64 },
    ];
    check(
        unsafe { libc::utimensat(libc::AT_FDCWD, c.as_ptr(), ts.as_ptr(), libc::AT_SYMLINK_NOFOLLOW) },
        "utimensat",
        abs,
    )
}

#[derive(Clone, Copy, Debug, PartialEq, Eq, Serialize, Deserialize, PartialOrd, Ord, Hash)]
pub enum K {
    D,
    F,
    L,
    Fifo,
    Sock,
    Chr,
    Blk,
    Other,
}

#[derive(Clone, Debug, PartialEq, Serialize, Deserialize)]
pub struct Meta {
    pub kind: K,
    pub mode: u32,
    pub uid: u32,
    pub gid: u32,
    pub mtime: (i64, i64),
    pub size: u64,
    pub blocks: u64,
    pub nlink: u64,
    pub rdev: u64,
    pub ino: u64,
    #[serde(default, skip_serializing_if = "Option::is_none")]
    pub link: Option<String>,
    #[serde(default, skip_serializing_if = "Option::is_none")]
    pub hash: Option<(u64, u64)>,
    #[serde(default, skip_serializing_if = "BTreeMap::is_empty")]
    pub xattrs: BTreeMap<String, Vec<u8>>,
}

impl Meta {
    pub fn link_bytes(&self) -> Option<Vec<u8>> {
        self.link.as_ref().map(|s| unesc(s))
    }
}

pub type Snap = BTreeMap<Vec<u8>, Meta>;

pub fn kind_of(mode: u32) -> K {
    match mode & libc::S_IFMT {
        libc::S_IFDIR => K::D,
        libc::S_IFREG => K::F,
        libc::S_IFLNK => K::L,
        libc::S_IFIFO => K::Fifo,
        libc::S_IFSOCK => K::Sock,
        libc::S_IFCHR => K::Chr,
        libc::S_IFBLK => K::Blk,
        _ => K::Other,
    }
}

/// Canonical content hash: (length, hash over every 4 KiB-aligned chunk that contains a non-zero byte,
/// keyed by its offset). Independent of the hole layout; holes are skipped with SEEK_DATA when possible.
pub fn hash_file(path: &Path) -> io::Result<(u64, u64)> {
    let f = File::open(path)?;
    let len = f.metadata()?.len();
    let mut h = Hash2::new();
    h.word(len);
    const CH: u64 = 4096;
    let fd = f.as_raw_fd();
    let mut pos: u64 = 0;
    let mut buf = vec![0u8; 1 << 16];
    while pos < len {
        let d = unsafe { libc::lseek(fd, pos as i64, libc::SEEK_DATA) };
        let (start, end) = if d < 0 {
            if errno() == libc::ENXIO {
                break; // only a hole remains
            }
            (pos, len) // SEEK_DATA unsupported: read everything
        } else {
            let d = d as u64;
            let hole = unsafe { libc::lseek(fd, d as i64, libc::SEEK_HOLE) };
            let hole = if hole < 0 { len } else { hole as u64 };
            ((d / CH) * CH, std::cmp::min(len, ((hole + CH - 1) / CH) * CH))
        };
        let mut o = start;
        while o < end {
            let want = std::cmp::min(buf.len() as u64, end - o) as usize;
            let mut got = 0usize;
            while got < want {
                let n = f.read_at(&mut buf[got..want], o + got as u64)?;
                if n == 0 {
                    break;
                }
                got += n;
            }
            if got == 0 {
                break;
            }
            let mut i = 0usize;
            while i < got {
                let j = std::cmp::min(got, i + CH as usize);
                let chunk = &buf[i..j];
                if chunk.iter().any(|b| *b != 0) {
                    h.word(o + i as u64);
                    h.bytes(chunk);
                }
                i = j;
            }
            o += got as u64;
            if got < want {
                break;
            }
        }
        pos = std::cmp::max(end, pos + 1);
    }
    Ok(h.fin())
}

pub fn list_xattrs(path: &Path) -> BTreeMap<String, Vec<u8>> {
    let mut out = BTreeMap::new();
    let c = cstr(&pbytes(path));
    let mut names = vec![0u8; 4096];
    let n = unsafe { libc::llistxattr(c.as_ptr(), names.as_mut_ptr() as *mut libc::c_char, names.len()) };
    if n <= 0 {
        return out;
    }
    for name in names[..n as usize].split(|b| *b == 0) {
        if name.is_empty() {
            continue;
        }
        let kc = cstr(name);
        let mut val = vec![0u8; 65536];
        let m = unsafe {
            libc::lgetxattr(c.as_ptr(), kc.as_ptr(), val.as_mut_ptr() as *mut libc::c_void, val.len())
        };
        if m >= 0 {
            val.truncate(m as usize);
            out.insert(esc(name), val);
        }
    }
    out
}

pub fn stat_one(abs: &Path, with_content: bool) -> io::Result<Meta> {
    let m = fs::symlink_metadata(abs)?;
    let kind = kind_of(m.mode());
    let link = if kind == K::L { Some(esc(&pbytes(&fs::read_link(abs)?))) } else { None };
    let hash = if kind == K::F && with_content { Some(hash_file(abs)?) } else { None };
    Ok(Meta {
        kind,
        mode: m.mode() & 0o7777,
        uid: m.uid(),
        gid: m.gid(),
        mtime: (m.mtime(), m.mtime_nsec()),
        size: m.size(),
        blocks: m.blocks(),
        nlink: m.nlink(),
        rdev: m.rdev(),
        ino: m.ino(),
        link,
        hash,
        xattrs: list_xattrs(abs),
    })
}

/// Recursive lstat snapshot of everything below `root` (root itself is recorded as path "").
pub fn snapshot(root: &Path) -> io::Result<Snap> {
    let mut s = Snap::new();
    fn rec(abs: &Path, rel: &[u8], s: &mut Snap) -> io::Result<()> {
        let m = stat_one(abs, true)?;
        let isdir = m.kind == K::D;
        s.insert(rel.to_vec(), m);
        if isdir {
            let mut names: Vec<Vec<u8>> = Vec::new();
            for e in fs::read_dir(abs)? {
                let e = e?;
                names.push(pbytes(Path::new(&e.file_name())));
            }
            names.sort();
            for n in names {
                let cabs = abs.join(p(&n));
                rec(&cabs, &join(rel, &n), s)?;
            }
        }
        Ok(())
    }
    rec(root, b"", &mut s)?;
    Ok(s)
}

pub fn read_all(path: &Path) -> io::Result<Vec<u8>> {
    let mut v = Vec::new();
    File::open(path)?.read_to_end(&mut v)?;
    Ok(v)
}

/// Chunked byte comparison of two files; returns Ok(None) if equal, else the first differing offset
/// (or the shorter length if one is a prefix of the other).
pub fn first_diff(a: &Path, b: &Path) -> io::Result<Option<u64>> {
    let fa = File::open(a)?;
    let fb = File::open(b)?;
    let la = fa.metadata()?.len();
    let lb = fb.metadata()?.len();
    let n = std::cmp::min(la, lb);
    let mut ba = vec![0u8; 1 << 20];
    let mut bb = vec![0u8; 1 << 20];
    let mut o = 0u64;
    while o < n {
        let want = std::cmp::min(ba.len() as u64, n - o) as usize;
        fa.read_exact_at(&mut ba[..want], o)?;
        fb.read_exact_at(&mut bb[..want], o)?;
        if ba[..want] != bb[..want] {
            for i in 0..want {
                if ba[i] != bb[i] {
                    return Ok(Some(o + i as u64));
                }
            }
        }
        o += want as u64;
    }
    if la != lb {
        return Ok(Some(n));
    }
    Ok(None)
}

pub fn write_file(path: &Path, data: &[u8]) -> io::Result<()> {
    let mut f = File::create(path)?;
    f.write_all(data)
}
