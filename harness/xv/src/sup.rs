//! E2: ptrace supervisor. Traces every thread of a child, logs every system call with a decoded
//! target, and can clamp I/O sizes, inject errnos, emulate FICLONE success, kill at a call, and
//! schedule threads by priorities at system-call boundaries (PCT-style).

use crate::util::*;
use serde::{Deserialize, Serialize};
use std::collections::{BTreeMap, HashMap};
use std::fs::File;
use std::io::Read;
use std::os::unix::fs::FileExt;
use std::os::unix::process::CommandExt;
use std::path::PathBuf;
use std::process::{Command, Stdio};
use std::time::{Duration, Instant};

#[derive(Clone, Copy, Debug, PartialEq, Eq, Hash, Serialize, Deserialize, PartialOrd, Ord)]
pub enum Sys {
    Stat,
    Open,
    Readlink,
    Mkdir,
    Rename,
    Unlink,
    Rmdir,
    Symlink,
    Link,
    Mknod,
    Getdents,
    Ftruncate,
    Truncate,
    Fallocate,
    Lseek,
    CopyFileRange,
    Sendfile,
    Read,
    Write,
    Pread,
    Pwrite,
    Ficlone,
    Fiemap,
    Ioctl,
    Listxattr,
    Getxattr,
    Setxattr,
    Chmod,
    Utimens,
    Chown,
    Fsync,
    Close,
    Dup,
    Fcntl,
    Getcwd,
    Chdir,
    Access,
    Futex,
    Yield,
    Clone,
    Exit,
    Sleep,
    Exec,
    Mem,
    NewFd,
    Other,
}

impl Sys {
    pub fn name(&self) -> String {
        format!("{:?}", self)
    }
    /// calls that move file data
    pub fn is_data_write(&self) -> bool {
        matches!(self, Sys::CopyFileRange | Sys::Write | Sys::Pwrite | Sys::Sendfile)
    }
}

#[derive(Clone, Debug, Serialize, Deserialize)]
pub struct Ev {
    /// global stamp at syscall entry / exit (one counter for both)
    pub t_in: u64,
    pub t_out: u64,
    /// thread creation index (0 = main)
    pub th: usize,
    pub sys: Sys,
    pub nr: i64,
    /// resolved (lexically normalised, absolute) target path, if any
    #[serde(with = "optb")]
    pub path: Option<Vec<u8>>,
    /// second path (rename target; symlink: the link *text*; for fd-pair calls the source path)
    #[serde(with = "optb")]
    pub path2: Option<Vec<u8>>,
    pub fd: i64,
    pub args: [u64; 6],
    pub ret: i64,
    /// what the supervisor did to this call, if anything
    pub act: Option<String>,
    /// for Open: O_* flags
    pub flags: u64,
}

mod optb {
    use serde::{Deserialize, Deserializer, Serializer};
    pub fn serialize<S: Serializer>(v: &Option<Vec<u8>>, s: S) -> Result<S::Ok, S::Error> {
        match v {
            Some(b) => s.serialize_some(&crate::util::esc(b)),
            None => s.serialize_none(),
        }
    }
    pub fn deserialize<'de, D: Deserializer<'de>>(d: D) -> Result<Option<Vec<u8>>, D::Error> {
        let s = Option::<String>::deserialize(d)?;
        Ok(s.map(|x| crate::util::unesc(&x)))
    }
}

impl Ev {
    pub fn ok(&self) -> bool {
        self.ret >= 0
    }
    /// the call never returned (process ended inside it)
    pub fn unfinished(&self) -> bool {
        self.ret == i64::MIN
    }
    pub fn errno(&self) -> i32 {
        if self.ret < 0 && self.ret > -4096 {
            (-self.ret) as i32
        } else {
            0
        }
    }
    pub fn path_is(&self, p: &[u8]) -> bool {
        self.path.as_deref() == Some(p)
    }
    pub fn is_write_open(&self) -> bool {
        self.sys == Sys::Open
            && (self.flags & (libc::O_WRONLY | libc::O_RDWR | libc::O_CREAT | libc::O_TRUNC) as u64) != 0
    }
    pub fn short(&self) -> String {
        format!(
            "#{} t{} {:?}({}{}{}) = {}{}",
            self.t_in,
            self.th,
            self.sys,
            self.path.as_ref().map(|p| esc(p)).unwrap_or_else(|| format!("fd{}", self.fd)),
            self.path2.as_ref().map(|p| format!(", {}", esc(p))).unwrap_or_default(),
            if self.sys == Sys::Open { format!(", fl={:#o}", self.flags) } else if self.sys.is_data_write() || self.sys == Sys::Read || self.sys == Sys::Pread { format!(", n={}", self.len_arg()) } else { String::new() },
            self.ret,
            self.act.as_ref().map(|a| format!(" [{}]", a)).unwrap_or_default()
        )
    }
    pub fn len_arg(&self) -> u64 {
        match self.sys {
            Sys::CopyFileRange => self.args[4],
            Sys::Read | Sys::Write | Sys::Pread | Sys::Pwrite => self.args[2],
            Sys::Sendfile => self.args[3],
            _ => 0,
        }
    }
}

#[derive(Clone, Debug, Serialize, Deserialize, PartialEq)]
pub enum PathSel {
    Any,
    /// any path below the sandbox root
    Sandbox,
    Exact(#[serde(with = "bser")] Vec<u8>),
    Prefix(#[serde(with = "bser")] Vec<u8>),
}

#[derive(Clone, Debug, Serialize, Deserialize, PartialEq)]
pub enum Nth {
    /// only the k-th matching call (0-based)
    Kth(usize),
    /// the k-th and all later ones
    From(usize),
    All,
    /// each matching call independently with probability permille/1000, decided by hash(seed, index)
    Prob(u64, u32),
}

#[derive(Clone, Debug, Serialize, Deserialize, PartialEq)]
pub enum Action {
    Errno(i32),
    /// lower the length argument to this many bytes (if smaller than requested)
    ClampTo(u64),
    /// lower the length to 1 + hash % (requested-1)
    ClampRand(u64),
    /// lower the length to requested - 1
    ClampMinus1,
    /// pretend ioctl(FICLONE) worked: copy the data, return 0
    EmulateCloneOk,
    KillBefore,
    KillAfter,
    /// hold the calling thread at the entry of this call for that many milliseconds of wall-clock time
    /// (everybody else keeps running): exposes timeouts and "quiet period" assumptions
    Delay(u64),
}

#[derive(Clone, Debug, Serialize, Deserialize, PartialEq)]
pub struct Rule {
    pub sys: Vec<Sys>,
    pub path: PathSel,
    pub nth: Nth,
    pub action: Action,
}

#[derive(Clone, Copy, Debug, Serialize, Deserialize, PartialEq)]
pub enum SchedKind {
    /// free running: no holding at all
    Free,
    /// random priority per thread
    Random,
    /// walker > dispatcher > main > workers (queues fill up)
    WalkerFirst,
    /// workers > dispatcher > walker (check-then-act windows)
    WorkersFirst,
    /// random, but pool worker `n % workers` has the lowest priority of all
    StarveWorker(usize),
}

#[derive(Clone, Debug, Serialize, Deserialize, PartialEq)]
pub struct Sched {
    pub kind: SchedKind,
    pub seed: u64,
    /// after the n-th sandbox-related call the running thread drops to the lowest priority
    pub change_points: Vec<usize>,
    pub parblock: bool,
}

impl Sched {
    pub fn free() -> Sched {
        Sched { kind: SchedKind::Free, seed: 0, change_points: vec![], parblock: false }
    }
}

#[derive(Clone, Debug)]
pub struct SupSpec {
    pub bin: PathBuf,
    pub args: Vec<Vec<u8>>,
    pub cwd: PathBuf,
    pub umask: u32,
    pub nofile: Option<u64>,
    pub timeout: Duration,
    pub out_dir: PathBuf,
    /// absolute sandbox root: calls on paths below it are "interesting"
    pub root: Vec<u8>,
    pub rules: Vec<Rule>,
    pub sched: Sched,
    /// further roots whose paths are interesting too (e.g. a second sandbox on another filesystem)
    pub extra_roots: Vec<Vec<u8>>,
    /// keep events on runtime paths (/proc, libs, ...) in the log
    pub log_all: bool,
    pub extra_env: Vec<(String, String)>,
    /// connect the child's stdout to this path (e.g. /dev/full) instead of a capture file
    pub stdout_to: Option<PathBuf>,
}

#[derive(Clone, Debug, Default)]
pub struct SupOut {
    pub code: Option<i32>,
    pub signal: Option<i32>,
    pub timed_out: bool,
    pub killed_by_plan: bool,
    pub stderr: Vec<u8>,
    pub stdout: Vec<u8>,
    pub log: Vec<Ev>,
    pub wall: Duration,
    pub threads: usize,
    pub peak_fds: usize,
    pub valve_releases: usize,
    /// number of rule firings, per rule
    pub fired: Vec<usize>,
    /// supervisor's view when a timeout hit: description of thread states
    pub hang_state: Option<String>,
    /// at a timeout: per live thread (role, scheduler state, current syscall if inside one)
    pub hang_threads: Vec<(Role, String, Option<Sys>)>,
    /// at a timeout: CPU time (user + system, all threads) the traced process had consumed, in ms
    pub hang_cpu_ms: u64,
    /// total number of system calls seen (all threads, all paths)
    pub total_calls: u64,
    /// unknown syscalls seen on sandbox paths
    pub unknown: usize,
    /// roles by thread index
    pub roles: Vec<Role>,
    pub setup_error: Option<String>,
}

/// utime + stime of a process (all its threads) from /proc/<pid>/stat, in milliseconds
fn proc_cpu_ms(pid: i32) -> u64 {
    let s = std::fs::read_to_string(format!("/proc/{}/stat", pid)).unwrap_or_default();
    let rest = s.rsplit(')').next().unwrap_or("");
    let f: Vec<&str> = rest.split_whitespace().collect();
    let ticks = f.get(11).and_then(|x| x.parse::<u64>().ok()).unwrap_or(0) + f.get(12).and_then(|x| x.parse::<u64>().ok()).unwrap_or(0);
    let hz = unsafe { libc::sysconf(libc::_SC_CLK_TCK) };
    ticks * 1000 / std::cmp::max(hz, 1) as u64
}

impl SupOut {
    pub fn ok(&self) -> bool {
        self.code == Some(0)
    }
    pub fn stderr_s(&self) -> String {
        String::from_utf8_lossy(&self.stderr).chars().take(600).collect()
    }
    pub fn log_head(&self, n: usize) -> Vec<String> {
        self.log.iter().take(n).map(|e| e.short()).collect()
    }
}

#[derive(Clone, Copy, Debug, PartialEq, Eq, Serialize, Deserialize, Hash, PartialOrd, Ord)]
pub enum Role {
    Main,
    Copy,
    Walker,
    Dispatcher,
    Worker(usize),
    Unknown,
}

#[derive(Clone, Copy, PartialEq, Debug)]
enum TState {
    /// resumed; in user space or a syscall not (yet) considered blocking
    Free,
    /// resumed into a syscall that blocks
    Blocked,
    /// at a ptrace stop, deliberately not resumed
    Held,
    /// called sched_yield; parked until somebody else makes progress
    Yielded,
    /// deliberately delayed by a Delay rule until a deadline; does not count as runnable
    Delayed,
    Dead,
}

struct Th {
    tid: i32,
    idx: usize,
    parent: Option<usize>,
    nchildren: usize,
    role: Role,
    in_sys: bool,
    cur_ev: Option<usize>,
    state: TState,
    since: Instant,
    sys_entered: Option<Instant>,
    prio: i64,
    seen_stop: bool,
    pending_errno: Option<i32>,
    pending_ret0: bool,
    pending_kill_after: bool,
    /// signal to deliver when a held thread is released
    pending_sig: i32,
    delay_until: Option<Instant>,
}

#[derive(Clone, Debug)]
struct FdInfo {
    path: Vec<u8>,
}

pub struct Sup {
    spec: SupSpec,
    pid: i32,
    threads: Vec<Th>,
    by_tid: HashMap<i32, usize>,
    fds: BTreeMap<i64, FdInfo>,
    cwd: Vec<u8>,
    log: Vec<Ev>,
    stamp: u64,
    rule_counts: Vec<usize>,
    fired: Vec<usize>,
    interesting_calls: usize,
    low_prio: i64,
    peak_fds: usize,
    valve: usize,
    unknown: usize,
    kill_requested: bool,
    pending_clone_children: Vec<i32>,
}

extern "C" fn on_alarm(_: libc::c_int) {}

extern "C" {
    fn setitimer(which: libc::c_int, new: *const libc::itimerval, old: *mut libc::itimerval) -> libc::c_int;
}

const FICLONE: u64 = 0x40049409;
const FS_IOC_FIEMAP: u64 = 0xC020660B;

fn ptrace(req: libc::c_uint, tid: i32, addr: usize, data: usize) -> i64 {
    unsafe { libc::ptrace(req, tid, addr as *mut libc::c_void, data as *mut libc::c_void) }
}

fn read_cstr(pid: i32, addr: u64) -> Option<Vec<u8>> {
    if addr == 0 {
        return None;
    }
    let mut out = Vec::new();
    let mut a = addr;
    loop {
        let page_left = 4096 - (a % 4096) as usize;
        let mut buf = vec![0u8; page_left];
        let local = libc::iovec { iov_base: buf.as_mut_ptr() as *mut libc::c_void, iov_len: page_left };
        let remote = libc::iovec { iov_base: a as *mut libc::c_void, iov_len: page_left };
        let n = unsafe { libc::process_vm_readv(pid, &local, 1, &remote, 1, 0) };
        if n <= 0 {
            return if out.is_empty() { None } else { Some(out) };
        }
        let n = n as usize;
        if let Some(z) = buf[..n].iter().position(|b| *b == 0) {
            out.extend_from_slice(&buf[..z]);
            return Some(out);
        }
        out.extend_from_slice(&buf[..n]);
        a += n as u64;
        if out.len() > 16384 {
            return Some(out);
        }
    }
}

impl Sup {
    fn classify(nr: i64) -> Sys {
        use libc::*;
        match nr {
            x if x == SYS_statx || x == SYS_newfstatat || x == SYS_stat || x == SYS_lstat || x == SYS_fstat => Sys::Stat,
            x if x == SYS_openat || x == SYS_open || x == SYS_creat || x == SYS_openat2 => Sys::Open,
            x if x == SYS_readlink || x == SYS_readlinkat => Sys::Readlink,
            x if x == SYS_mkdir || x == SYS_mkdirat => Sys::Mkdir,
            x if x == SYS_rename || x == SYS_renameat || x == SYS_renameat2 => Sys::Rename,
            x if x == SYS_unlink || x == SYS_unlinkat => Sys::Unlink,
            x if x == SYS_rmdir => Sys::Rmdir,
            x if x == SYS_symlink || x == SYS_symlinkat => Sys::Symlink,
            x if x == SYS_link || x == SYS_linkat => Sys::Link,
            x if x == SYS_mknod || x == SYS_mknodat => Sys::Mknod,
            x if x == SYS_getdents || x == SYS_getdents64 => Sys::Getdents,
            x if x == SYS_ftruncate => Sys::Ftruncate,
            x if x == SYS_truncate => Sys::Truncate,
            x if x == SYS_fallocate => Sys::Fallocate,
            x if x == SYS_lseek => Sys::Lseek,
            x if x == SYS_copy_file_range => Sys::CopyFileRange,
            x if x == SYS_sendfile || x == SYS_splice => Sys::Sendfile,
            x if x == SYS_read || x == SYS_readv => Sys::Read,
            x if x == SYS_write || x == SYS_writev => Sys::Write,
            x if x == SYS_pread64 || x == SYS_preadv || x == SYS_preadv2 => Sys::Pread,
            x if x == SYS_pwrite64 || x == SYS_pwritev || x == SYS_pwritev2 => Sys::Pwrite,
            x if x == SYS_ioctl => Sys::Ioctl,
            x if x == SYS_listxattr || x == SYS_llistxattr || x == SYS_flistxattr => Sys::Listxattr,
            x if x == SYS_getxattr || x == SYS_lgetxattr || x == SYS_fgetxattr => Sys::Getxattr,
            x if x == SYS_setxattr || x == SYS_lsetxattr || x == SYS_fsetxattr || x == SYS_removexattr || x == SYS_lremovexattr || x == SYS_fremovexattr => Sys::Setxattr,
            x if x == SYS_chmod || x == SYS_fchmod || x == SYS_fchmodat || x == 452 => Sys::Chmod,
            x if x == SYS_utimensat || x == SYS_utimes || x == SYS_utime || x == SYS_futimesat => Sys::Utimens,
            x if x == SYS_chown || x == SYS_fchown || x == SYS_lchown || x == SYS_fchownat => Sys::Chown,
            x if x == SYS_fsync || x == SYS_fdatasync || x == SYS_sync_file_range || x == SYS_syncfs => Sys::Fsync,
            x if x == SYS_close => Sys::Close,
            x if x == SYS_dup || x == SYS_dup2 || x == SYS_dup3 => Sys::Dup,
            x if x == SYS_fcntl => Sys::Fcntl,
            x if x == SYS_getcwd => Sys::Getcwd,
            x if x == SYS_chdir || x == SYS_fchdir => Sys::Chdir,
            x if x == SYS_access || x == SYS_faccessat || x == SYS_faccessat2 => Sys::Access,
            x if x == SYS_futex => Sys::Futex,
            x if x == SYS_sched_yield => Sys::Yield,
            x if x == SYS_clone || x == SYS_clone3 || x == SYS_fork || x == SYS_vfork => Sys::Clone,
            x if x == SYS_exit || x == SYS_exit_group => Sys::Exit,
            x if x == SYS_nanosleep || x == SYS_clock_nanosleep || x == SYS_poll || x == SYS_ppoll || x == SYS_select || x == SYS_pselect6 || x == SYS_epoll_wait || x == SYS_epoll_pwait || x == SYS_pause || x == SYS_wait4 || x == SYS_rt_sigtimedwait => Sys::Sleep,
            x if x == SYS_execve || x == SYS_execveat => Sys::Exec,
            x if x == SYS_mmap || x == SYS_munmap || x == SYS_mprotect || x == SYS_brk || x == SYS_madvise || x == SYS_mremap => Sys::Mem,
            x if x == SYS_socket || x == SYS_pipe || x == SYS_pipe2 || x == SYS_eventfd || x == SYS_eventfd2 || x == SYS_epoll_create || x == SYS_epoll_create1 || x == SYS_memfd_create || x == SYS_timerfd_create || x == SYS_inotify_init1 => Sys::NewFd,
            _ => Sys::Other,
        }
    }

    fn resolve_at(&self, dirfd: i64, path: &[u8]) -> Vec<u8> {
        if path.first() == Some(&b'/') {
            return lex_norm(b"/", path);
        }
        let dirfd32 = dirfd as i32;
        if dirfd32 == libc::AT_FDCWD {
            return lex_norm(&self.cwd, path);
        }
        match self.fds.get(&(dirfd32 as i64)) {
            Some(fi) => lex_norm(&fi.path, path),
            None => lex_norm(format!("/?fd{}", dirfd32).as_bytes(), path),
        }
    }

    fn fd_path(&self, fd: i64) -> Option<Vec<u8>> {
        self.fds.get(&((fd as i32) as i64)).map(|f| f.path.clone())
    }

    /// Decode target paths of a call at entry.
    fn decode(&self, sys: Sys, nr: i64, a: &[u64; 6]) -> (Option<Vec<u8>>, Option<Vec<u8>>, i64, u64) {
        use libc::*;
        let pid = self.pid;
        let s = |addr: u64| read_cstr(pid, addr);
        let fdp = |fd: u64| self.fd_path(fd as i64);
        let mut flags = 0u64;
        let (p1, p2, fd): (Option<Vec<u8>>, Option<Vec<u8>>, i64) = match sys {
            Sys::Stat => {
                if nr == SYS_fstat {
                    (fdp(a[0]), None, a[0] as i32 as i64)
                } else if nr == SYS_stat || nr == SYS_lstat {
                    (s(a[0]).map(|p| self.resolve_at(AT_FDCWD as i64, &p)), None, -1)
                } else {
                    // statx / newfstatat (dirfd, path, ...)
                    let pth = s(a[1]).unwrap_or_default();
                    if pth.is_empty() {
                        (fdp(a[0]), None, a[0] as i32 as i64)
                    } else {
                        (Some(self.resolve_at(a[0] as i64, &pth)), None, -1)
                    }
                }
            }
            Sys::Open => {
                if nr == SYS_open {
                    flags = a[1];
                    (s(a[0]).map(|p| self.resolve_at(AT_FDCWD as i64, &p)), None, -1)
                } else if nr == SYS_creat {
                    flags = (O_CREAT | O_WRONLY | O_TRUNC) as u64;
                    (s(a[0]).map(|p| self.resolve_at(AT_FDCWD as i64, &p)), None, -1)
                } else if nr == SYS_openat2 {
                    // struct open_how { u64 flags; ... } at a[2]
                    let mut b = [0u8; 8];
                    let local = iovec { iov_base: b.as_mut_ptr() as *mut c_void, iov_len: 8 };
                    let remote = iovec { iov_base: a[2] as *mut c_void, iov_len: 8 };
                    unsafe { process_vm_readv(pid, &local, 1, &remote, 1, 0) };
                    flags = u64::from_le_bytes(b);
                    (s(a[1]).map(|p| self.resolve_at(a[0] as i64, &p)), None, -1)
                } else {
                    flags = a[2];
                    (s(a[1]).map(|p| self.resolve_at(a[0] as i64, &p)), None, -1)
                }
            }
            Sys::Readlink => {
                if nr == SYS_readlink {
                    (s(a[0]).map(|p| self.resolve_at(AT_FDCWD as i64, &p)), None, -1)
                } else {
                    (s(a[1]).map(|p| self.resolve_at(a[0] as i64, &p)), None, -1)
                }
            }
            Sys::Mkdir => {
                if nr == SYS_mkdir {
                    (s(a[0]).map(|p| self.resolve_at(AT_FDCWD as i64, &p)), None, -1)
                } else {
                    (s(a[1]).map(|p| self.resolve_at(a[0] as i64, &p)), None, -1)
                }
            }
            Sys::Rename => {
                if nr == SYS_rename {
                    (
                        s(a[1]).map(|p| self.resolve_at(AT_FDCWD as i64, &p)),
                        s(a[0]).map(|p| self.resolve_at(AT_FDCWD as i64, &p)),
                        -1,
                    )
                } else {
                    // path = new name (the entry being created/replaced), path2 = old name
                    (
                        s(a[3]).map(|p| self.resolve_at(a[2] as i64, &p)),
                        s(a[1]).map(|p| self.resolve_at(a[0] as i64, &p)),
                        -1,
                    )
                }
            }
            Sys::Unlink => {
                if nr == SYS_unlink {
                    (s(a[0]).map(|p| self.resolve_at(AT_FDCWD as i64, &p)), None, -1)
                } else {
                    (s(a[1]).map(|p| self.resolve_at(a[0] as i64, &p)), None, -1)
                }
            }
            Sys::Rmdir | Sys::Truncate | Sys::Chdir if nr != SYS_fchdir => {
                (s(a[0]).map(|p| self.resolve_at(AT_FDCWD as i64, &p)), None, -1)
            }
            Sys::Chdir => (fdp(a[0]), None, a[0] as i32 as i64),
            Sys::Symlink => {
                if nr == SYS_symlink {
                    (s(a[1]).map(|p| self.resolve_at(AT_FDCWD as i64, &p)), s(a[0]), -1)
                } else {
                    // symlinkat(target, newdirfd, linkpath)
                    (s(a[2]).map(|p| self.resolve_at(a[1] as i64, &p)), s(a[0]), -1)
                }
            }
            Sys::Link => {
                if nr == SYS_link {
                    (
                        s(a[1]).map(|p| self.resolve_at(AT_FDCWD as i64, &p)),
                        s(a[0]).map(|p| self.resolve_at(AT_FDCWD as i64, &p)),
                        -1,
                    )
                } else {
                    (
                        s(a[3]).map(|p| self.resolve_at(a[2] as i64, &p)),
                        s(a[1]).map(|p| self.resolve_at(a[0] as i64, &p)),
                        -1,
                    )
                }
            }
            Sys::Mknod => {
                if nr == SYS_mknod {
                    (s(a[0]).map(|p| self.resolve_at(AT_FDCWD as i64, &p)), None, -1)
                } else {
                    (s(a[1]).map(|p| self.resolve_at(a[0] as i64, &p)), None, -1)
                }
            }
            Sys::Access => {
                if nr == SYS_access {
                    (s(a[0]).map(|p| self.resolve_at(AT_FDCWD as i64, &p)), None, -1)
                } else {
                    (s(a[1]).map(|p| self.resolve_at(a[0] as i64, &p)), None, -1)
                }
            }
            Sys::CopyFileRange => (fdp(a[2]), fdp(a[0]), a[2] as i32 as i64),
            Sys::Sendfile => {
                if nr == SYS_sendfile {
                    (fdp(a[0]), fdp(a[1]), a[0] as i32 as i64)
                } else {
                    (fdp(a[2]), fdp(a[0]), a[2] as i32 as i64)
                }
            }
            Sys::Ioctl => {
                if a[1] == FICLONE {
                    (fdp(a[0]), fdp(a[2]), a[0] as i32 as i64)
                } else {
                    (fdp(a[0]), None, a[0] as i32 as i64)
                }
            }
            Sys::Listxattr | Sys::Getxattr | Sys::Setxattr => {
                let is_f = nr == SYS_flistxattr || nr == SYS_fgetxattr || nr == SYS_fsetxattr || nr == SYS_fremovexattr;
                let name = if sys == Sys::Listxattr { None } else { s(a[1]) };
                if is_f {
                    (fdp(a[0]), name, a[0] as i32 as i64)
                } else {
                    (s(a[0]).map(|p| self.resolve_at(AT_FDCWD as i64, &p)), name, -1)
                }
            }
            Sys::Chmod => {
                if nr == SYS_fchmod {
                    (fdp(a[0]), None, a[0] as i32 as i64)
                } else if nr == SYS_chmod {
                    (s(a[0]).map(|p| self.resolve_at(AT_FDCWD as i64, &p)), None, -1)
                } else {
                    (s(a[1]).map(|p| self.resolve_at(a[0] as i64, &p)), None, -1)
                }
            }
            Sys::Utimens => {
                if nr == SYS_utimensat || nr == SYS_futimesat {
                    match s(a[1]) {
                        Some(pth) if !pth.is_empty() => (Some(self.resolve_at(a[0] as i64, &pth)), None, -1),
                        _ => (fdp(a[0]), None, a[0] as i32 as i64),
                    }
                } else {
                    (s(a[0]).map(|p| self.resolve_at(AT_FDCWD as i64, &p)), None, -1)
                }
            }
            Sys::Chown => {
                if nr == SYS_fchown {
                    (fdp(a[0]), None, a[0] as i32 as i64)
                } else if nr == SYS_fchownat {
                    let pth = s(a[1]).unwrap_or_default();
                    if pth.is_empty() {
                        (fdp(a[0]), None, a[0] as i32 as i64)
                    } else {
                        (Some(self.resolve_at(a[0] as i64, &pth)), None, -1)
                    }
                } else {
                    (s(a[0]).map(|p| self.resolve_at(AT_FDCWD as i64, &p)), None, -1)
                }
            }
            Sys::Getdents | Sys::Ftruncate | Sys::Fallocate | Sys::Lseek | Sys::Read | Sys::Write | Sys::Pread
            | Sys::Pwrite | Sys::Fsync | Sys::Close | Sys::Dup | Sys::Fcntl => (fdp(a[0]), None, a[0] as i32 as i64),
            _ => (None, None, -1),
        };
        (p1, p2, fd, flags)
    }

    fn interesting(&self, p: &Option<Vec<u8>>) -> bool {
        let under = |p: &Vec<u8>, r: &Vec<u8>| p.starts_with(r) && (p.len() == r.len() || p[r.len()] == b'/');
        match p {
            Some(p) => under(p, &self.spec.root) || self.spec.extra_roots.iter().any(|r| under(p, r)),
            None => false,
        }
    }

    fn role_for_new(&self, parent: Option<usize>, ordinal: usize) -> Role {
        let pr = match parent {
            None => return Role::Main,
            Some(pi) => self.threads[pi].role,
        };
        match pr {
            Role::Main => {
                if ordinal == 0 {
                    Role::Copy
                } else {
                    Role::Unknown
                }
            }
            Role::Copy => {
                if self.spec.sched.parblock {
                    match ordinal {
                        0 => Role::Dispatcher,
                        1 => Role::Walker,
                        _ => Role::Unknown,
                    }
                } else if ordinal == 0 {
                    Role::Walker
                } else {
                    Role::Worker(ordinal - 1)
                }
            }
            Role::Dispatcher => Role::Worker(ordinal),
            // blocking-threadpool respawns/pool threads may be spawned by other pool threads
            Role::Worker(_) => Role::Worker(100 + ordinal),
            _ => Role::Unknown,
        }
    }

    fn prio_for(&self, idx: usize, role: Role) -> i64 {
        let sc = &self.spec.sched;
        let r = (splitmix(sc.seed ^ (idx as u64).wrapping_mul(0x9e3779b97f4a7c15)) % 1000) as i64;
        match sc.kind {
            SchedKind::Free => 0,
            SchedKind::Random => 1000 + r,
            SchedKind::WalkerFirst => match role {
                Role::Walker => 9000,
                Role::Dispatcher => 8000,
                Role::Main => 7000,
                Role::Copy => 6000,
                _ => 1000 + r,
            },
            SchedKind::WorkersFirst => match role {
                Role::Worker(_) => 8000 + r,
                Role::Dispatcher => 5000,
                Role::Walker => 3000,
                _ => 4000 + r,
            },
            SchedKind::StarveWorker(n) => match role {
                Role::Worker(k) if k == n => 1,
                _ => 1000 + r,
            },
        }
    }

    fn add_thread(&mut self, tid: i32, parent: Option<usize>) -> usize {
        if let Some(i) = self.by_tid.get(&tid) {
            let i = *i;
            if self.threads[i].parent.is_none() && parent.is_some() && i != 0 {
                // the child's first stop arrived before the parent's clone event: fix up the role now
                let pi = parent.unwrap();
                let ord = self.threads[pi].nchildren;
                self.threads[pi].nchildren += 1;
                let role = self.role_for_new(parent, ord);
                let prio = self.prio_for(i, role);
                let t = &mut self.threads[i];
                t.parent = parent;
                t.role = role;
                t.prio = prio;
            }
            return i;
        }
        let idx = self.threads.len();
        let (role, prio) = if idx == 0 {
            (Role::Main, self.prio_for(0, Role::Main))
        } else if let Some(pi) = parent {
            let ord = self.threads[pi].nchildren;
            self.threads[pi].nchildren += 1;
            let role = self.role_for_new(parent, ord);
            (role, self.prio_for(idx, role))
        } else {
            (Role::Unknown, self.prio_for(idx, Role::Unknown))
        };
        self.threads.push(Th {
            tid,
            idx,
            parent,
            nchildren: 0,
            role,
            in_sys: false,
            cur_ev: None,
            state: TState::Free,
            since: Instant::now(),
            sys_entered: None,
            prio,
            seen_stop: false,
            pending_errno: None,
            pending_ret0: false,
            pending_kill_after: false,
            pending_sig: 0,
            delay_until: None,
        });
        self.by_tid.insert(tid, idx);
        idx
    }

    fn scheduling(&self) -> bool {
        self.spec.sched.kind != SchedKind::Free
    }

    /// May thread `i` run now? Only if no other runnable (free or held) thread has a higher priority.
    fn may_run(&self, i: usize) -> bool {
        if !self.scheduling() {
            return true;
        }
        let p = self.threads[i].prio;
        !self.threads.iter().any(|u| {
            u.idx != i && (u.state == TState::Free || u.state == TState::Held) && (u.prio > p || (u.prio == p && u.idx < i))
        })
    }

    fn resume(&mut self, i: usize) {
        let sig = self.threads[i].pending_sig;
        self.threads[i].pending_sig = 0;
        let tid = self.threads[i].tid;
        ptrace(libc::PTRACE_SYSCALL, tid, 0, sig as usize);
        let blocking = self.threads[i].in_sys
            && self.threads[i]
                .cur_ev
                .map(|e| {
                    let ev = &self.log[e];
                    match ev.sys {
                        Sys::Futex => {
                            let op = ev.args[1] & 0x7f;
                            op == 0 || op == 9 || op == 6 || op == 11 || op == 13
                        }
                        Sys::Sleep => true,
                        _ => false,
                    }
                })
                .unwrap_or(false);
        self.threads[i].state = if blocking { TState::Blocked } else { TState::Free };
        self.threads[i].since = Instant::now();
    }

    /// Either resume thread i or hold it, by priority.
    fn resume_or_hold(&mut self, i: usize) {
        if self.may_run(i) {
            self.resume(i);
        } else {
            self.threads[i].state = TState::Held;
            self.threads[i].since = Instant::now();
        }
    }

    fn reschedule(&mut self) {
        if !self.scheduling() {
            return;
        }
        loop {
            let best = self
                .threads
                .iter()
                .filter(|t| t.state == TState::Held)
                .max_by(|a, b| a.prio.cmp(&b.prio).then(b.idx.cmp(&a.idx)))
                .map(|t| t.idx);
            match best {
                Some(i) if self.may_run(i) => self.resume(i),
                _ => break,
            }
        }
        // If nothing at all is runnable except yielded threads, wake the best yielded one.
        let any_active = self.threads.iter().any(|t| t.state == TState::Free || t.state == TState::Held);
        if !any_active {
            let best = self
                .threads
                .iter()
                .filter(|t| t.state == TState::Yielded)
                .max_by(|a, b| a.prio.cmp(&b.prio).then(b.idx.cmp(&a.idx)))
                .map(|t| t.idx);
            if let Some(i) = best {
                self.resume(i);
            }
        }
    }

    fn unyield_all(&mut self, except: usize) {
        for t in self.threads.iter_mut() {
            if t.state == TState::Yielded && t.idx != except {
                t.state = TState::Held;
            }
        }
    }

    fn tick(&mut self) {
        // periodic: blocked-detection for unknown blocking calls, safety valve for long holds
        let now = Instant::now();
        let mut changed = false;
        for t in self.threads.iter_mut() {
            if t.state == TState::Free && t.in_sys {
                if let Some(s) = t.sys_entered {
                    if now.duration_since(s) > Duration::from_millis(20) {
                        t.state = TState::Blocked;
                        changed = true;
                    }
                }
            }
        }
        let due: Vec<usize> = self.threads.iter().filter(|t| t.state == TState::Delayed && t.delay_until.map(|u| now >= u).unwrap_or(true)).map(|t| t.idx).collect();
        for i in due {
            self.threads[i].delay_until = None;
            self.resume_or_hold(i);
            changed = true;
        }
        let mut to_release = vec![];
        for t in self.threads.iter() {
            if (t.state == TState::Held || t.state == TState::Yielded) && now.duration_since(t.since) > Duration::from_millis(200) {
                to_release.push(t.idx);
            }
        }
        for i in to_release {
            self.valve += 1;
            self.resume(i);
            changed = true;
        }
        if changed {
            self.reschedule();
        }
    }

    fn match_rule(&mut self, sys: Sys, path: &Option<Vec<u8>>, a: &[u64; 6]) -> Option<(usize, Action)> {
        for (ri, r) in self.spec.rules.iter().enumerate() {
            if !r.sys.contains(&sys) {
                continue;
            }
            let pm = match &r.path {
                PathSel::Any => true,
                PathSel::Sandbox => self.interesting(path),
                PathSel::Exact(p) => path.as_deref() == Some(p.as_slice()),
                PathSel::Prefix(p) => path.as_ref().map(|x| x.starts_with(p)).unwrap_or(false),
            };
            if !pm {
                continue;
            }
            // clamps only make sense when more than one byte was requested
            if matches!(r.action, Action::ClampTo(_) | Action::ClampRand(_) | Action::ClampMinus1) {
                let len = match sys {
                    Sys::CopyFileRange => a[4],
                    _ => a[2],
                };
                if len < 2 {
                    continue;
                }
            }
            let k = self.rule_counts[ri];
            self.rule_counts[ri] += 1;
            let hit = match r.nth {
                Nth::Kth(n) => k == n,
                Nth::From(n) => k >= n,
                Nth::All => true,
                Nth::Prob(seed, pm) => (splitmix(seed ^ (k as u64).wrapping_mul(0x2545F4914F6CDD1D)) % 1000) < pm as u64,
            };
            if hit {
                self.fired[ri] += 1;
                return Some((ri, r.action.clone()));
            }
        }
        None
    }

    fn emulate_clone(&self, fd_out: i64, fd_in: i64) -> bool {
        let pin = format!("/proc/{}/fd/{}", self.pid, fd_in as i32);
        let pout = format!("/proc/{}/fd/{}", self.pid, fd_out as i32);
        let fin = match File::open(&pin) {
            Ok(f) => f,
            Err(_) => return false,
        };
        let fout = match std::fs::OpenOptions::new().write(true).open(&pout) {
            Ok(f) => f,
            Err(_) => return false,
        };
        let len = fin.metadata().map(|m| m.len()).unwrap_or(0);
        let mut buf = vec![0u8; 1 << 20];
        let mut o = 0u64;
        while o < len {
            let n = match fin.read_at(&mut buf, o) {
                Ok(0) | Err(_) => break,
                Ok(n) => n,
            };
            if fout.write_all_at(&buf[..n], o).is_err() {
                return false;
            }
            o += n as u64;
        }
        fout.set_len(len).is_ok()
    }

    fn on_syscall_stop(&mut self, i: usize) {
        let tid = self.threads[i].tid;
        let mut regs: libc::user_regs_struct = unsafe { std::mem::zeroed() };
        if ptrace(libc::PTRACE_GETREGS, tid, 0, &mut regs as *mut _ as usize) < 0 {
            // thread vanished
            return;
        }
        if !self.threads[i].in_sys {
            // ---- entry ----
            let nr = regs.orig_rax as i64;
            let a = [regs.rdi, regs.rsi, regs.rdx, regs.r10, regs.r8, regs.r9];
            let mut sys = Self::classify(nr);
            let (path, path2, fd, flags) = self.decode(sys, nr, &a);
            if sys == Sys::Ioctl {
                if a[1] == FICLONE {
                    sys = Sys::Ficlone;
                } else if a[1] == FS_IOC_FIEMAP {
                    sys = Sys::Fiemap;
                }
            }
            if sys == Sys::Close {
                // drop the mapping at *entry*: once close() runs, another thread's open() may be handed the
                // same number, and its exit stop can be reported before this call's exit stop
                self.fds.remove(&((a[0] as i32) as i64));
            }
            // marker protocol (API probe): the text written to a file named *xv-marker is kept in path2
            let mut path2 = path2;
            if sys == Sys::Write && nr == libc::SYS_write {
                if let Some(p) = &path {
                    if p.ends_with(b"xv-marker") {
                        let n = std::cmp::min(a[2] as usize, 64);
                        let mut buf = vec![0u8; n];
                        let local = libc::iovec { iov_base: buf.as_mut_ptr() as *mut libc::c_void, iov_len: n };
                        let remote = libc::iovec { iov_base: a[1] as *mut libc::c_void, iov_len: n };
                        let r = unsafe { libc::process_vm_readv(self.pid, &local, 1, &remote, 1, 0) };
                        if r > 0 {
                            buf.truncate(r as usize);
                            path2 = Some(buf);
                        }
                    }
                }
            }
            let interesting = self.interesting(&path);
            if sys == Sys::Other && interesting {
                self.unknown += 1;
            }
            self.stamp += 1;
            let mut ev = Ev { t_in: self.stamp, t_out: 0, th: i, sys, nr, path: path.clone(), path2, fd, args: a, ret: i64::MIN, act: None, flags };
            let mut kill_now = false;
            if let Some((_ri, act)) = self.match_rule(sys, &path, &a) {
                match act {
                    Action::Errno(e) => {
                        regs.orig_rax = u64::MAX;
                        ptrace(libc::PTRACE_SETREGS, tid, 0, &regs as *const _ as usize);
                        self.threads[i].pending_errno = Some(e);
                        ev.act = Some(format!("errno {}", e));
                    }
                    Action::ClampTo(_) | Action::ClampRand(_) | Action::ClampMinus1 => {
                        let req = if sys == Sys::CopyFileRange { a[4] } else { a[2] };
                        let n = match act {
                            Action::ClampTo(n) => std::cmp::max(1, std::cmp::min(n, req - 1)),
                            Action::ClampRand(seed) => 1 + splitmix(seed ^ self.stamp) % (req - 1),
                            _ => req - 1,
                        };
                        if sys == Sys::CopyFileRange {
                            regs.r8 = n;
                        } else {
                            regs.rdx = n;
                        }
                        ptrace(libc::PTRACE_SETREGS, tid, 0, &regs as *const _ as usize);
                        ev.act = Some(format!("clamp {}->{}", req, n));
                    }
                    Action::EmulateCloneOk => {
                        if self.emulate_clone(a[0] as i64, a[2] as i64) {
                            regs.orig_rax = u64::MAX;
                            ptrace(libc::PTRACE_SETREGS, tid, 0, &regs as *const _ as usize);
                            self.threads[i].pending_ret0 = true;
                            ev.act = Some("clone-emulated".into());
                        } else {
                            ev.act = Some("clone-emulation-failed".into());
                        }
                    }
                    Action::KillBefore => {
                        ev.act = Some("kill-before".into());
                        kill_now = true;
                    }
                    Action::KillAfter => {
                        ev.act = Some("kill-after".into());
                        self.threads[i].pending_kill_after = true;
                    }
                    Action::Delay(ms) => {
                        ev.act = Some(format!("delay {}ms", ms));
                        self.threads[i].delay_until = Some(Instant::now() + Duration::from_millis(ms));
                    }
                }
            }
            let keep = self.spec.log_all
                || interesting
                || self.interesting(&ev.path2)
                || ev.act.is_some()
                || matches!(sys, Sys::Clone | Sys::Exit | Sys::Futex | Sys::Yield | Sys::Sleep | Sys::NewFd);
            self.threads[i].in_sys = true;
            self.threads[i].sys_entered = Some(Instant::now());
            // always push (cheap) but mark uninteresting ones for removal at the end
            let mut ev = ev;
            if !keep {
                ev.nr = -1 - ev.nr; // marker: drop later
            }
            self.log.push(ev);
            self.threads[i].cur_ev = Some(self.log.len() - 1);
            if kill_now {
                self.kill_requested = true;
                unsafe { libc::kill(self.pid, libc::SIGKILL) };
                return;
            }
            if interesting {
                self.interesting_calls += 1;
                if self.scheduling() && self.spec.sched.change_points.contains(&self.interesting_calls) {
                    self.low_prio -= 1;
                    self.threads[i].prio = self.low_prio;
                }
            }
            if self.threads[i].delay_until.is_some() {
                self.threads[i].state = TState::Delayed;
                self.threads[i].since = Instant::now();
                self.reschedule();
                return;
            }
            if sys == Sys::Yield && self.scheduling() {
                // park: others may proceed
                let others = self.threads.iter().any(|t| t.idx != i && (t.state == TState::Held || t.state == TState::Free));
                if others {
                    self.threads[i].state = TState::Yielded;
                    self.threads[i].since = Instant::now();
                    self.reschedule();
                    return;
                }
            }
            self.resume_or_hold(i);
            if self.threads[i].state != TState::Free {
                self.reschedule();
            }
        } else {
            // ---- exit ----
            let mut ret = regs.rax as i64;
            let mut set = false;
            if let Some(e) = self.threads[i].pending_errno.take() {
                ret = -(e as i64);
                set = true;
            }
            if self.threads[i].pending_ret0 {
                self.threads[i].pending_ret0 = false;
                ret = 0;
                set = true;
            }
            if set {
                regs.rax = ret as u64;
                ptrace(libc::PTRACE_SETREGS, tid, 0, &regs as *const _ as usize);
            }
            self.threads[i].in_sys = false;
            self.threads[i].sys_entered = None;
            self.stamp += 1;
            let stamp = self.stamp;
            if let Some(ei) = self.threads[i].cur_ev.take() {
                let (sys, nr, a, path, flags_fd) = {
                    let ev = &mut self.log[ei];
                    ev.ret = ret;
                    ev.t_out = stamp;
                    (ev.sys, if ev.nr < 0 { -1 - ev.nr } else { ev.nr }, ev.args, ev.path.clone(), ev.fd)
                };
                let _ = flags_fd;
                // fd table maintenance
                if ret >= 0 {
                    match sys {
                        Sys::Open => {
                            if let Some(p) = path {
                                self.fds.insert(ret, FdInfo { path: p });
                            } else {
                                self.fds.insert(ret, FdInfo { path: b"/?".to_vec() });
                            }
                        }
                        Sys::Dup => {
                            if let Some(fi) = self.fds.get(&((a[0] as i32) as i64)).cloned() {
                                self.fds.insert(ret, fi);
                            } else {
                                self.fds.insert(ret, FdInfo { path: b"/?dup".to_vec() });
                            }
                        }
                        Sys::Fcntl => {
                            let cmd = a[1] as i32;
                            if cmd == libc::F_DUPFD || cmd == libc::F_DUPFD_CLOEXEC {
                                if let Some(fi) = self.fds.get(&((a[0] as i32) as i64)).cloned() {
                                    self.fds.insert(ret, fi);
                                } else {
                                    self.fds.insert(ret, FdInfo { path: b"/?dup".to_vec() });
                                }
                            }
                        }
                        Sys::NewFd => {
                            if nr == libc::SYS_pipe || nr == libc::SYS_pipe2 {
                                // two fds written to memory; read them
                                let mut b = [0u8; 8];
                                let local = libc::iovec { iov_base: b.as_mut_ptr() as *mut libc::c_void, iov_len: 8 };
                                let remote = libc::iovec { iov_base: a[0] as *mut libc::c_void, iov_len: 8 };
                                unsafe { libc::process_vm_readv(self.pid, &local, 1, &remote, 1, 0) };
                                let f0 = i32::from_le_bytes(b[0..4].try_into().unwrap()) as i64;
                                let f1 = i32::from_le_bytes(b[4..8].try_into().unwrap()) as i64;
                                self.fds.insert(f0, FdInfo { path: b"/?pipe".to_vec() });
                                self.fds.insert(f1, FdInfo { path: b"/?pipe".to_vec() });
                            } else {
                                self.fds.insert(ret, FdInfo { path: b"/?anon".to_vec() });
                            }
                        }
                        Sys::Chdir => {
                            if let Some(p) = path {
                                self.cwd = p;
                            }
                        }
                        _ => {}
                    }
                    if self.fds.len() > self.peak_fds {
                        self.peak_fds = self.fds.len();
                    }
                }
            }
            if self.threads[i].pending_kill_after {
                self.threads[i].pending_kill_after = false;
                self.kill_requested = true;
                unsafe { libc::kill(self.pid, libc::SIGKILL) };
                return;
            }
            if self.scheduling() {
                self.unyield_all(i);
            }
            self.resume_or_hold(i);
            self.reschedule();
        }
    }

    fn describe_threads(&self) -> String {
        let mut s = String::new();
        for t in &self.threads {
            if t.state == TState::Dead {
                continue;
            }
            let cur = t.cur_ev.map(|e| self.log[e].short()).unwrap_or_else(|| "userspace".into());
            s.push_str(&format!("t{}({:?},{:?},in_sys={}) {} | ", t.idx, t.role, t.state, t.in_sys, cur));
        }
        s
    }

    pub fn run(mut spec: SupSpec) -> SupOut {
        let t0 = Instant::now();
        // thread roles depend on the driver: read it from the command line
        spec.sched.parblock = spec.args.windows(2).any(|w| w[0] == b"--driver" && w[1] == b"parblock") || spec.args.iter().any(|a| a == b"--driver=parblock")
            || spec.extra_env.iter().any(|(k, v)| k == "XV_DRIVER" && v == "parblock");
        let errp = spec.out_dir.join("stderr");
        let outp = spec.out_dir.join("stdout");
        let errf = File::create(&errp).expect("stderr file");
        let outf = match &spec.stdout_to {
            Some(p) => std::fs::OpenOptions::new().write(true).open(p).expect("stdout target"),
            None => File::create(&outp).expect("stdout file"),
        };
        let mut c = Command::new(&spec.bin);
        crate::run::child_env(&mut c);
        for (k, v) in &spec.extra_env {
            c.env(k, v);
        }
        for a in &spec.args {
            c.arg(p(a));
        }
        c.current_dir(&spec.cwd).stdin(Stdio::null()).stdout(outf).stderr(errf);
        let umask = spec.umask;
        let nofile = spec.nofile;
        unsafe {
            c.pre_exec(move || {
                libc::umask(umask);
                if let Some(n) = nofile {
                    let rl = libc::rlimit { rlim_cur: n, rlim_max: n };
                    libc::setrlimit(libc::RLIMIT_NOFILE, &rl);
                }
                if libc::ptrace(libc::PTRACE_TRACEME, 0, 0, 0) < 0 {
                    return Err(std::io::Error::last_os_error());
                }
                Ok(())
            });
        }
        let child = match c.spawn() {
            Ok(ch) => ch,
            Err(e) => {
                return SupOut { setup_error: Some(format!("spawn failed: {e}")), ..Default::default() };
            }
        };
        let pid = child.id() as i32;
        std::mem::forget(child); // we reap it ourselves
        let nrules = spec.rules.len();
        let cwdb = pbytes(&spec.cwd);
        let mut sup = Sup {
            spec,
            pid,
            threads: vec![],
            by_tid: HashMap::new(),
            fds: BTreeMap::new(),
            cwd: lex_norm(b"/", &cwdb),
            log: Vec::with_capacity(512),
            stamp: 0,
            rule_counts: vec![0; nrules],
            fired: vec![0; nrules],
            interesting_calls: 0,
            low_prio: 0,
            peak_fds: 3,
            valve: 0,
            unknown: 0,
            kill_requested: false,
            pending_clone_children: vec![],
        };
        for fd in 0..3 {
            sup.fds.insert(fd, FdInfo { path: b"/?std".to_vec() });
        }
        // first stop: SIGTRAP after exec
        let mut status = 0i32;
        let r = unsafe { libc::waitpid(pid, &mut status, libc::__WALL) };
        if r != pid || !libc::WIFSTOPPED(status) {
            return SupOut { setup_error: Some(format!("unexpected first wait status {status:#x}")), ..Default::default() };
        }
        let opts = libc::PTRACE_O_TRACESYSGOOD | libc::PTRACE_O_TRACECLONE | libc::PTRACE_O_TRACEFORK | libc::PTRACE_O_TRACEVFORK | libc::PTRACE_O_TRACEEXEC | libc::PTRACE_O_EXITKILL;
        if ptrace(libc::PTRACE_SETOPTIONS, pid, 0, opts as usize) < 0 {
            unsafe { libc::kill(pid, libc::SIGKILL) };
            unsafe { libc::waitpid(pid, &mut status, libc::__WALL) };
            return SupOut { setup_error: Some("PTRACE_SETOPTIONS failed".into()), ..Default::default() };
        }
        sup.add_thread(pid, None);
        sup.threads[0].seen_stop = true;
        ptrace(libc::PTRACE_SYSCALL, pid, 0, 0);

        // periodic wakeups
        unsafe {
            let mut sa: libc::sigaction = std::mem::zeroed();
            sa.sa_sigaction = on_alarm as usize;
            sa.sa_flags = 0;
            libc::sigaction(libc::SIGALRM, &sa, std::ptr::null_mut());
            let it = libc::itimerval {
                it_interval: libc::timeval { tv_sec: 0, tv_usec: 10_000 },
                it_value: libc::timeval { tv_sec: 0, tv_usec: 10_000 },
            };
            setitimer(0, &it, std::ptr::null_mut());
        }

        let mut out = SupOut::default();
        let deadline = t0 + sup.spec.timeout;
        let mut leader_status: Option<i32> = None;
        loop {
            let r = unsafe { libc::waitpid(-1, &mut status, libc::__WALL) };
            if r < 0 {
                let e = errno();
                if e == libc::EINTR {
                    if Instant::now() > deadline && !out.timed_out {
                        out.timed_out = true;
                        out.hang_cpu_ms = proc_cpu_ms(pid);
                        out.hang_state = Some(sup.describe_threads());
                        out.hang_threads = sup
                            .threads
                            .iter()
                            .filter(|t| t.state != TState::Dead)
                            .map(|t| (t.role, format!("{:?}", t.state), if t.in_sys { t.cur_ev.map(|e| sup.log[e].sys) } else { None }))
                            .collect();
                        unsafe { libc::kill(pid, libc::SIGKILL) };
                    }
                    sup.tick();
                    continue;
                }
                break; // ECHILD: all gone
            }
            let tid = r;
            if libc::WIFEXITED(status) || libc::WIFSIGNALED(status) {
                if let Some(&i) = sup.by_tid.get(&tid) {
                    sup.threads[i].state = TState::Dead;
                    sup.threads[i].in_sys = false;
                }
                if tid == pid {
                    leader_status = Some(status);
                }
                if sup.threads.iter().all(|t| t.state == TState::Dead) && leader_status.is_some() {
                    break;
                }
                sup.reschedule();
                continue;
            }
            if !libc::WIFSTOPPED(status) {
                continue;
            }
            let sig = libc::WSTOPSIG(status);
            let event = (status >> 16) & 0xff;
            let known = sup.by_tid.contains_key(&tid);
            let i = if known { sup.by_tid[&tid] } else { sup.add_thread(tid, None) };
            if sig == (libc::SIGTRAP | 0x80) {
                sup.on_syscall_stop(i);
                continue;
            }
            if event != 0 {
                if event == libc::PTRACE_EVENT_CLONE || event == libc::PTRACE_EVENT_FORK || event == libc::PTRACE_EVENT_VFORK {
                    let mut newtid: libc::c_ulong = 0;
                    ptrace(libc::PTRACE_GETEVENTMSG, tid, 0, &mut newtid as *mut _ as usize);
                    sup.add_thread(newtid as i32, Some(i));
                }
                ptrace(libc::PTRACE_SYSCALL, tid, 0, 0);
                continue;
            }
            if sig == libc::SIGSTOP && !sup.threads[i].seen_stop {
                // initial stop of a new thread
                sup.threads[i].seen_stop = true;
                sup.resume_or_hold(i);
                continue;
            }
            if sig == libc::SIGTRAP {
                ptrace(libc::PTRACE_SYSCALL, tid, 0, 0);
                continue;
            }
            // deliver any other signal
            ptrace(libc::PTRACE_SYSCALL, tid, 0, sig as usize);
        }
        unsafe {
            let it: libc::itimerval = std::mem::zeroed();
            setitimer(0, &it, std::ptr::null_mut());
            libc::signal(libc::SIGALRM, libc::SIG_IGN);
        }
        if let Some(st) = leader_status {
            if libc::WIFEXITED(st) {
                out.code = Some(libc::WEXITSTATUS(st));
            } else if libc::WIFSIGNALED(st) {
                out.signal = Some(libc::WTERMSIG(st));
            }
        }
        out.killed_by_plan = sup.kill_requested;
        let _ = File::open(&errp).and_then(|mut f| f.read_to_end(&mut out.stderr));
        let _ = File::open(&outp).and_then(|mut f| f.read_to_end(&mut out.stdout));
        out.threads = sup.threads.len();
        out.roles = sup.threads.iter().map(|t| t.role).collect();
        out.peak_fds = sup.peak_fds;
        out.valve_releases = sup.valve;
        out.fired = sup.fired.clone();
        out.unknown = sup.unknown;
        out.total_calls = sup.stamp / 2;
        out.log = sup.log.into_iter().filter(|e| e.nr >= 0).collect();
        out.wall = t0.elapsed();
        out
    }
}

/// (sys, path) -> number of calls, over sandbox paths: the fault points of a recorded run.
pub fn fault_points(log: &[Ev], root: &[u8]) -> Vec<(Sys, Vec<u8>, usize)> {
    let mut m: BTreeMap<(Sys, Vec<u8>), usize> = BTreeMap::new();
    let mut order: Vec<(Sys, Vec<u8>)> = vec![];
    for e in log {
        if let Some(p) = &e.path {
            if p.starts_with(root) {
                let k = (e.sys, p.clone());
                let c = m.entry(k.clone()).or_insert(0);
                if *c == 0 {
                    order.push(k);
                }
                *c += 1;
            }
        }
    }
    order.into_iter().map(|k| { let c = m[&k]; (k.0, k.1, c) }).collect()
}
