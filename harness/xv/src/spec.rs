//! Case data types: what the sandbox contains before a run.

use crate::util::{bser, Bytes};
use serde::{Deserialize, Serialize};

#[derive(Clone, Debug, Serialize, Deserialize, PartialEq)]
pub enum Seg {
    /// `len` bytes of non-zero, position- and seed-dependent data
    Data(u64, u8),
    /// `len` bytes never written (a hole if the filesystem cooperates)
    Hole(u64),
    /// `len` bytes of explicitly written zeros (allocated, reads as zero)
    Zero(u64),
    /// a range of `.0` bytes preallocated with fallocate() (unwritten extent) whose first `.1` bytes
    /// are then written with data (seed `.2`); the rest reads as zero
    PreData(u64, u64, u8),
}

#[derive(Clone, Debug, Serialize, Deserialize, PartialEq, Default)]
pub struct Content {
    pub segs: Vec<Seg>,
    /// fsync after writing (on-disk extents rather than delalloc ones)
    #[serde(default)]
    pub sync: bool,
}

impl Content {
    pub fn len(&self) -> u64 {
        self.segs
            .iter()
            .map(|s| match s {
                Seg::Data(l, _) | Seg::Hole(l) | Seg::Zero(l) | Seg::PreData(l, _, _) => *l,
            })
            .sum()
    }
    pub fn data(len: u64, seed: u8) -> Content {
        Content { segs: if len > 0 { vec![Seg::Data(len, seed)] } else { vec![] }, sync: false }
    }
    pub fn has_hole(&self) -> bool {
        self.segs.iter().any(|s| matches!(s, Seg::Hole(l) if *l > 0))
    }
    pub fn data_bytes(&self) -> u64 {
        self.segs.iter().map(|s| match s { Seg::Data(l, _) => *l, Seg::PreData(l, d, _) => std::cmp::min(*d, *l), _ => 0 }).sum()
    }
    /// Materialise the logical bytes (only for small contents)
    pub fn bytes(&self) -> Vec<u8> {
        let mut v = Vec::with_capacity(self.len() as usize);
        let mut off = 0u64;
        for s in &self.segs {
            match s {
                Seg::Data(l, seed) => {
                    for i in 0..*l {
                        v.push(pattern(off + i, *seed));
                    }
                    off += l;
                }
                Seg::Hole(l) | Seg::Zero(l) => {
                    v.extend(std::iter::repeat(0u8).take(*l as usize));
                    off += l;
                }
                Seg::PreData(l, d, seed) => {
                    let d = &std::cmp::min(*d, *l);
                    for i in 0..*d {
                        v.push(pattern(off + i, *seed));
                    }
                    v.extend(std::iter::repeat(0u8).take((*l - *d) as usize));
                    off += l;
                }
            }
        }
        v
    }
}

/// Non-zero byte pattern depending on the absolute offset and a seed, so that misplaced blocks,
/// stale bytes of an older destination (different seed) and missing bytes (zero) are all visible.
#[inline]
pub fn pattern(off: u64, seed: u8) -> u8 {
    let x = off
        .wrapping_mul(0x9e37_79b9)
        .wrapping_add((off >> 9).wrapping_mul(0x85eb_ca6b))
        .wrapping_add((seed as u64).wrapping_mul(0x1f3d_5b79));
    1 + ((x >> 7) % 255) as u8
}

pub fn fill_pattern(buf: &mut [u8], start_off: u64, seed: u8) {
    for (i, b) in buf.iter_mut().enumerate() {
        *b = pattern(start_off + i as u64, seed);
    }
}

#[derive(Clone, Debug, Serialize, Deserialize, PartialEq)]
pub enum Kind {
    Dir,
    File(Content),
    Link(#[serde(with = "bser")] Bytes),
    Fifo,
    /// socket node made with mknod(S_IFSOCK)
    Sock,
    Char(u32, u32),
    Block(u32, u32),
    /// hard link to another (earlier) entry, path relative to the sandbox root
    Hard(#[serde(with = "bser")] Bytes),
}

#[derive(Clone, Debug, Serialize, Deserialize, PartialEq)]
pub struct Ent {
    /// path relative to the sandbox root
    #[serde(with = "bser")]
    pub path: Bytes,
    pub kind: Kind,
    /// permission bits (0..=07777); None = whatever creation gives
    #[serde(default)]
    pub mode: Option<u32>,
    /// (seconds, nanoseconds)
    #[serde(default)]
    pub mtime: Option<(i64, u32)>,
    #[serde(default)]
    pub owner: Option<(u32, u32)>,
    #[serde(default)]
    pub xattrs: Vec<(String, Vec<u8>)>,
}

impl Ent {
    pub fn new(path: &[u8], kind: Kind) -> Ent {
        Ent { path: path.to_vec(), kind, mode: None, mtime: None, owner: None, xattrs: vec![] }
    }
    pub fn dir(path: &[u8]) -> Ent {
        Ent::new(path, Kind::Dir)
    }
    pub fn file(path: &[u8], c: Content) -> Ent {
        Ent::new(path, Kind::File(c))
    }
    pub fn link(path: &[u8], target: &[u8]) -> Ent {
        Ent::new(path, Kind::Link(target.to_vec()))
    }
    pub fn with_mode(mut self, m: u32) -> Ent {
        self.mode = Some(m);
        self
    }
    pub fn with_mtime(mut self, s: i64, ns: u32) -> Ent {
        self.mtime = Some((s, ns));
        self
    }
}
