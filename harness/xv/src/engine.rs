//! Check framework: recorder, proptest driver with known-finding filtering, shard merging, evidence.

use crate::util::*;
use proptest::strategy::{Strategy, ValueTree};
use proptest::test_runner::{Config, RngAlgorithm, RngSeed, TestCaseError, TestError, TestRunner};
use serde::{Deserialize, Serialize};
use serde_json::{json, Value};
use std::cell::RefCell;
use std::collections::{BTreeMap, BTreeSet};

#[derive(Clone, Copy, Debug, PartialEq, Eq)]
pub enum Tier {
    Quick,
    Thorough,
}
impl Tier {
    pub fn name(&self) -> &'static str {
        match self {
            Tier::Quick => "quick",
            Tier::Thorough => "thorough",
        }
    }
}

#[derive(Clone, Debug, Serialize, Deserialize)]
pub struct KnownFinding {
    pub property: String,
    pub signature: String,
    pub what: String,
}

#[derive(Clone, Debug)]
pub struct Ctx {
    pub id: String,
    pub tier: Tier,
    pub seed: u64,
    pub shard: usize,
    pub nshards: usize,
    pub known: Vec<KnownFinding>,
    /// scale factor for case counts (XV_SCALE env, default 1.0) - used by sensitivity experiments
    pub scale: f64,
    /// how often a schedule-dependent replay is attempted (a failure in any attempt counts):
    /// 3 for `xv replay`, 1 for the regression tier at the start of every check
    pub replay_attempts: usize,
}

impl Ctx {
    pub fn shard_seed(&self, sub: &str) -> u64 {
        mix_seed(self.seed, &format!("{}/{}", self.id, sub), self.shard as u64)
    }
    /// cases for this shard given a total over all shards
    pub fn share(&self, total: u32) -> u32 {
        let t = ((total as f64) * self.scale).ceil() as u32;
        let base = t / self.nshards as u32;
        let rem = t % self.nshards as u32;
        base + if (self.shard as u32) < rem { 1 } else { 0 }
    }
    pub fn is_known(&self, sig: &str) -> Option<&KnownFinding> {
        self.known.iter().find(|k| k.property == self.id && k.signature == sig)
    }
}

#[derive(Clone, Debug, Serialize, Deserialize)]
pub struct Failure {
    pub property: String,
    pub sub: String,
    pub signature: String,
    pub reason: String,
    pub case: Value,
    #[serde(default)]
    pub details: Value,
}

#[derive(Clone, Debug)]
pub enum Verdict {
    Pass,
    /// property violated: (signature, reason, details)
    Fail(String, String, Value),
    /// the run could not be judged (infrastructure), with reason
    Inconclusive(String),
}

impl Verdict {
    pub fn fail(sig: impl Into<String>, reason: impl Into<String>) -> Verdict {
        Verdict::Fail(sig.into(), reason.into(), Value::Null)
    }
    pub fn faild(sig: impl Into<String>, reason: impl Into<String>, d: Value) -> Verdict {
        Verdict::Fail(sig.into(), reason.into(), d)
    }
}

#[derive(Clone, Debug, Default, Serialize, Deserialize)]
pub struct Rec {
    pub evaluations: u64,
    pub cases: u64,
    pub nontrivial: BTreeSet<u64>,
    pub classes: BTreeMap<String, u64>,
    pub samples: Vec<Value>,
    pub counters: BTreeMap<String, i64>,
    pub known_hits: BTreeMap<String, u64>,
    pub failures: Vec<Failure>,
    pub inconclusive: Vec<String>,
    pub notes: Vec<String>,
    #[serde(skip)]
    pub frozen: bool,
}

impl Rec {
    pub fn eval(&mut self, n: u64) {
        if !self.frozen {
            self.evaluations += n;
        }
    }
    pub fn case(&mut self) {
        if !self.frozen {
            self.cases += 1;
        }
    }
    pub fn nontrivial(&mut self, h: u64) {
        if !self.frozen {
            self.nontrivial.insert(h);
        }
    }
    /// count a class; returns true if this class is new (good moment to keep a sample)
    pub fn class(&mut self, k: impl Into<String>) -> bool {
        if self.frozen {
            return false;
        }
        let e = self.classes.entry(k.into()).or_insert(0);
        *e += 1;
        *e == 1
    }
    pub fn sample(&mut self, v: Value) {
        if !self.frozen && self.samples.len() < 6 {
            self.samples.push(v);
        }
    }
    pub fn count(&mut self, k: &str, n: i64) {
        if !self.frozen {
            *self.counters.entry(k.to_string()).or_insert(0) += n;
        }
    }
    pub fn max(&mut self, k: &str, n: i64) {
        if !self.frozen {
            let e = self.counters.entry(k.to_string()).or_insert(n);
            if n > *e {
                *e = n;
            }
        }
    }
    pub fn merge(&mut self, o: Rec) {
        self.evaluations += o.evaluations;
        self.cases += o.cases;
        self.nontrivial.extend(o.nontrivial);
        for (k, v) in o.classes {
            *self.classes.entry(k).or_insert(0) += v;
        }
        for s in o.samples {
            if self.samples.len() < 10 {
                self.samples.push(s);
            }
        }
        for (k, v) in o.counters {
            if k.starts_with("max_") {
                let e = self.counters.entry(k).or_insert(v);
                if v > *e {
                    *e = v;
                }
            } else {
                *self.counters.entry(k).or_insert(0) += v;
            }
        }
        for (k, v) in o.known_hits {
            *self.known_hits.entry(k).or_insert(0) += v;
        }
        self.failures.extend(o.failures);
        self.inconclusive.extend(o.inconclusive);
        self.notes.extend(o.notes);
    }
}

pub fn case_hash<T: Serialize>(c: &T) -> u64 {
    fnv64(serde_json::to_string(c).unwrap_or_default().as_bytes())
}

/// Drive `judge` over `cases` generated values of `strategy`. A failure whose signature is a listed
/// known finding is counted and excluded so the search continues behind it. The first other failure
/// is shrunk by proptest (re-running `judge`) and recorded in `rec.failures`.
pub fn prop_loop<S, F>(ctx: &Ctx, rec: &mut Rec, sub: &str, strategy: S, cases: u32, judge: F)
where
    S: Strategy,
    S::Value: Serialize + Clone + std::fmt::Debug,
    F: Fn(&S::Value, &mut Rec) -> Verdict,
{
    if cases == 0 {
        return;
    }
    let seed = ctx.shard_seed(sub);
    let mut sb = [0u8; 32];
    for (i, ch) in sb.chunks_mut(8).enumerate() {
        ch.copy_from_slice(&splitmix(seed.wrapping_add(i as u64)).to_le_bytes());
    }
    let cfg = Config {
        cases,
        failure_persistence: None,
        max_shrink_iters: 400,
        // shrinking re-executes the program under test: bound it in time as well (a limit on effort
        // spent minimising a failure that is already established; never a verdict)
        max_shrink_time: 25_000,
        max_global_rejects: 100_000,
        rng_algorithm: RngAlgorithm::ChaCha,
        rng_seed: RngSeed::Fixed(seed),
        ..Config::default()
    };
    let _ = sb;
    let mut runner = TestRunner::new(cfg);
    let cell = RefCell::new(std::mem::take(rec));
    let last_fail: RefCell<Option<(String, String, Value)>> = RefCell::new(None);
    let result = runner.run(&strategy, |v| {
        let mut r = cell.borrow_mut();
        r.case();
        match judge(&v, &mut r) {
            Verdict::Pass => Ok(()),
            Verdict::Inconclusive(why) => {
                if !r.frozen && r.inconclusive.len() < 20 {
                    r.inconclusive.push(why);
                }
                r.count("inconclusive_cases", 1);
                Ok(())
            }
            Verdict::Fail(sig, reason, details) => {
                if let Some(k) = ctx.is_known(&sig) {
                    if !r.frozen {
                        *r.known_hits.entry(format!("{}: {}", k.signature, k.what)).or_insert(0) += 1;
                    }
                    // excluded by construction: counted, not reported
                    Ok(())
                } else {
                    r.frozen = true; // stop counting: the closure re-runs during shrinking
                    *last_fail.borrow_mut() = Some((sig, reason.clone(), details));
                    Err(TestCaseError::fail(reason))
                }
            }
        }
    });
    let mut r = cell.into_inner();
    r.frozen = false;
    match result {
        Ok(()) => {}
        Err(TestError::Fail(why, value)) if last_fail.borrow().is_none() => {
            // the closure never returned a Fail verdict: it panicked (harness defect, not a verdict)
            r.inconclusive.push(format!("harness panic: {} on case {}", why, serde_json::to_string(&value).unwrap_or_default()));
            r.count("inconclusive_cases", 1);
        }
        Err(TestError::Fail(_, value)) => {
            // `value` is the shrunk case; last_fail holds the verdict of its last failing execution
            let (sig, reason, details) = last_fail.borrow().clone().unwrap_or_default();
            // re-judge the minimal value once to get matching details (shrinking may have ended on a pass)
            let mut scratch = Rec::default();
            scratch.frozen = true;
            let (sig, reason, details) = match judge(&value, &mut scratch) {
                Verdict::Fail(s, r2, d) => (s, r2, d),
                _ => (sig, reason, details),
            };
            r.failures.push(Failure {
                property: ctx.id.clone(),
                sub: sub.to_string(),
                signature: sig,
                reason,
                case: serde_json::to_value(&value).unwrap_or(Value::Null),
                details,
            });
        }
        Err(TestError::Abort(why)) => {
            r.inconclusive.push(format!("proptest aborted: {}", why));
        }
    }
    *rec = r;
}

/// Deterministically sample one value from a strategy (used by enumerating checks).
pub fn sample_value<S: Strategy>(strategy: &S, seed: u64) -> S::Value {
    let cfg = Config { failure_persistence: None, rng_seed: RngSeed::Fixed(seed), ..Config::default() };
    let mut runner = TestRunner::new(cfg);
    strategy.new_tree(&mut runner).expect("strategy").current()
}

pub fn evidence_json(id: &str, tier: Tier, seed: u64, level: &str, rule: &str, rec: &Rec, wall_s: f64, assumptions: &[String], violations: usize) -> Value {
    let mut classes: Vec<(&String, &u64)> = rec.classes.iter().collect();
    classes.sort_by(|a, b| b.1.cmp(a.1).then(a.0.cmp(b.0)));
    let class_hist: serde_json::Map<String, Value> = classes.iter().take(400).map(|(k, v)| ((*k).clone(), json!(**v))).collect();
    json!({
        "property_id": id,
        "tier": tier.name(),
        "seed": seed,
        "level": level,
        "coverage": {
            "evaluations": rec.evaluations,
            "generated_cases": rec.cases,
            "distinct_nontrivial": rec.nontrivial.len(),
            "rule": rule,
            "samples": rec.samples,
            "distinct_classes": rec.classes.len(),
            "class_histogram": class_hist,
            "counters": rec.counters,
            "known_findings_hit": rec.known_hits,
            "inconclusive": rec.inconclusive.iter().take(10).collect::<Vec<_>>(),
            "notes": rec.notes.iter().take(20).collect::<Vec<_>>(),
        },
        "assumptions": assumptions,
        "wall_s": wall_s,
        "violations": violations,
    })
}
