//! Building the code under test and running it (unsupervised).

use crate::util::*;
use std::fs::File;
use std::io::Read;
use std::os::unix::process::{CommandExt, ExitStatusExt};
use std::path::{Path, PathBuf};
use std::process::{Command, Stdio};
use std::time::{Duration, Instant};

pub const XCP_TARGET: &str = "/verif/.build/xcp";
pub const XCP_BIN: &str = "/verif/.build/xcp/debug/xcp";
pub const PROBE_BIN: &str = "/verif/.build/harness/release/probe";
pub const FALLBACK_BIN: &str = "/verif/.build/fallback/release/probe-fallback";

pub fn cargo_bin() -> String {
    if let Ok(c) = std::env::var("XV_CARGO") {
        return c;
    }
    for cand in ["/root/.cargo/bin/cargo", "/usr/local/cargo/bin/cargo"] {
        if std::path::Path::new(cand).exists() {
            return cand.to_string();
        }
    }
    "cargo".to_string()
}

fn cargo_cmd() -> Command {
    let mut c = Command::new(cargo_bin());
    c.env("CARGO_NET_OFFLINE", "true")
        .env_remove("RUSTFLAGS")
        // release *semantics* (wrapping arithmetic, no debug assertions) at dev compile cost
        .env("CARGO_PROFILE_DEV_OVERFLOW_CHECKS", "false")
        .env("CARGO_PROFILE_DEV_DEBUG_ASSERTIONS", "false")
        .env("CARGO_PROFILE_DEV_DEBUG", "0")
        .env("CARGO_PROFILE_DEV_INCREMENTAL", "false");
    c
}

/// Build the real xcp binary from /repo's working tree. Err => infrastructure failure (exit 2).
pub fn build_xcp() -> Result<(), String> {
    let out = cargo_cmd()
        .args(["build", "--offline", "-q", "--manifest-path", "/repo/Cargo.toml", "--target-dir", XCP_TARGET, "--bin", "xcp"])
        .output()
        .map_err(|e| format!("cannot run cargo: {e}"))?;
    if !out.status.success() {
        return Err(format!("xcp build failed:\n{}", String::from_utf8_lossy(&out.stderr)));
    }
    Ok(())
}

/// Build the API probe (path dependencies on /repo/libxcp and /repo/libfs).
pub fn build_probe() -> Result<(), String> {
    let out = Command::new(cargo_bin())
        .env("CARGO_NET_OFFLINE", "true")
        .env_remove("RUSTFLAGS")
        .current_dir("/verif/harness")
        .args(["build", "--offline", "-q", "--release", "-p", "probe"])
        .output()
        .map_err(|e| format!("cannot run cargo: {e}"))?;
    if !out.status.success() {
        return Err(format!("probe build failed:\n{}", String::from_utf8_lossy(&out.stderr)));
    }
    Ok(())
}

pub fn build_fallback() -> Result<(), String> {
    let out = Command::new(cargo_bin())
        .env("CARGO_NET_OFFLINE", "true")
        .env_remove("RUSTFLAGS")
        .current_dir("/verif/probe-fallback")
        .args(["build", "--offline", "-q", "--release"])
        .output()
        .map_err(|e| format!("cannot run cargo: {e}"))?;
    if !out.status.success() {
        return Err(format!("probe-fallback build failed:\n{}", String::from_utf8_lossy(&out.stderr)));
    }
    Ok(())
}

#[derive(Clone, Debug, Default)]
pub struct RunOut {
    pub code: Option<i32>,
    pub signal: Option<i32>,
    pub stderr: Vec<u8>,
    pub stdout: Vec<u8>,
    pub timed_out: bool,
    pub wall: Duration,
}

impl RunOut {
    pub fn ok(&self) -> bool {
        self.code == Some(0)
    }
    pub fn stderr_s(&self) -> String {
        String::from_utf8_lossy(&self.stderr).chars().take(600).collect()
    }
}

#[derive(Clone, Debug)]
pub struct RunSpec {
    pub bin: PathBuf,
    pub args: Vec<Vec<u8>>,
    pub cwd: PathBuf,
    pub umask: u32,
    pub nofile: Option<u64>,
    pub timeout: Duration,
    /// directory for stdout/stderr capture files
    pub out_dir: PathBuf,
    /// RLIMIT_AS in bytes (runaway allocations end the child instead of the sandbox)
    pub as_limit: Option<u64>,
    pub stdin_data: Option<Vec<u8>>,
}

impl RunSpec {
    pub fn xcp(args: Vec<Vec<u8>>, cwd: &Path, out_dir: &Path) -> RunSpec {
        RunSpec {
            bin: PathBuf::from(XCP_BIN),
            args,
            cwd: cwd.to_path_buf(),
            umask: 0o022,
            nofile: None,
            timeout: Duration::from_secs(30),
            out_dir: out_dir.to_path_buf(),
            as_limit: None,
            stdin_data: None,
        }
    }
}

pub fn child_env(c: &mut Command) {
    c.env_clear().env("PATH", "/usr/bin:/bin").env("HOME", "/nonexistent").env("LANG", "C.UTF-8");
}

pub fn run_plain(spec: &RunSpec) -> RunOut {
    let t0 = Instant::now();
    let errp = spec.out_dir.join("stderr");
    let outp = spec.out_dir.join("stdout");
    let errf = File::create(&errp).expect("stderr file");
    let outf = File::create(&outp).expect("stdout file");
    let mut c = Command::new(&spec.bin);
    child_env(&mut c);
    for a in &spec.args {
        c.arg(p(a));
    }
    let stdin_cfg = match &spec.stdin_data {
        Some(d) => {
            let inp = spec.out_dir.join("stdin");
            std::fs::write(&inp, d).expect("stdin file");
            Stdio::from(File::open(&inp).expect("stdin file"))
        }
        None => Stdio::null(),
    };
    c.current_dir(&spec.cwd).stdin(stdin_cfg).stdout(outf).stderr(errf);
    let umask = spec.umask;
    let nofile = spec.nofile;
    let as_limit = spec.as_limit;
    unsafe {
        c.pre_exec(move || {
            libc::umask(umask);
            if let Some(n) = nofile {
                let rl = libc::rlimit { rlim_cur: n, rlim_max: n };
                libc::setrlimit(libc::RLIMIT_NOFILE, &rl);
            }
            if let Some(n) = as_limit {
                let rl = libc::rlimit { rlim_cur: n, rlim_max: n };
                libc::setrlimit(libc::RLIMIT_AS, &rl);
            }
            Ok(())
        });
    }
    let mut child = match c.spawn() {
        Ok(ch) => ch,
        Err(e) => {
            return RunOut { stderr: format!("spawn failed: {e}").into_bytes(), ..Default::default() };
        }
    };
    let mut timed_out = false;
    let mut sleep_us = 100u64;
    let status = loop {
        match child.try_wait() {
            Ok(Some(st)) => break st,
            Ok(None) => {
                if t0.elapsed() > spec.timeout {
                    timed_out = true;
                    let _ = child.kill();
                    break child.wait().expect("wait");
                }
                std::thread::sleep(Duration::from_micros(sleep_us));
                sleep_us = std::cmp::min(sleep_us * 2, 2000);
            }
            Err(_) => {
                break child.wait().expect("wait");
            }
        }
    };
    let mut stderr = Vec::new();
    let _ = File::open(&errp).and_then(|mut f| f.read_to_end(&mut stderr));
    let mut stdout = Vec::new();
    let _ = File::open(&outp).and_then(|mut f| f.read_to_end(&mut stdout));
    RunOut { code: status.code(), signal: status.signal(), stderr, stdout, timed_out, wall: t0.elapsed() }
}
