#![no_main]
//! libFuzzer target for libfs::merge_extents with the C19 merge laws as the oracle inside the target.
//! Bytes are decoded into a sorted, non-overlapping extent list: pairs of (gap, length) varints.
use libfs::Extent;
use libfuzzer_sys::fuzz_target;

fn varint(data: &[u8], pos: &mut usize) -> Option<u64> {
    // 1 control byte: low 2 bits = number of following bytes (0..3), rest = small value
    let c = *data.get(*pos)?;
    *pos += 1;
    let n = (c & 3) as usize;
    let mut v = (c >> 2) as u64;
    for _ in 0..n {
        let b = *data.get(*pos)?;
        *pos += 1;
        v = (v << 8) | b as u64;
    }
    Some(v)
}

fn laws(input: &[(u64, u64)], output: &[(u64, u64)]) -> Result<(), String> {
    for w in output.windows(2) {
        if w[0].1 > w[1].0 || w[0].0 > w[1].0 {
            return Err(format!("outputs not ordered/disjoint: {:?} then {:?}", w[0], w[1]));
        }
    }
    for o in output {
        if !input.iter().any(|i| i.0 == o.0) {
            return Err(format!("output {:?} does not begin at an input boundary", o));
        }
        if !input.iter().any(|i| i.1 == o.1) {
            return Err(format!("output {:?} does not end at an input boundary", o));
        }
    }
    for i in input {
        if !output.iter().any(|o| o.0 <= i.0 && i.1 <= o.1) {
            return Err(format!("input {:?} is not covered by a single output range", i));
        }
    }
    for o in output {
        let inside: Vec<&(u64, u64)> = input.iter().filter(|i| o.0 <= i.0 && i.1 <= o.1).collect();
        match (inside.first(), inside.last()) {
            (Some(f), Some(l)) => {
                if f.0 != o.0 || l.1 != o.1 {
                    return Err(format!("output {:?} extends beyond the inputs it contains", o));
                }
            }
            _ => return Err(format!("output {:?} contains no input", o)),
        }
    }
    Ok(())
}

fuzz_target!(|data: &[u8]| {
    let mut pos = 0usize;
    let mut cur = 0u64;
    let mut input: Vec<(u64, u64)> = vec![];
    while input.len() < 64 {
        let gap = match varint(data, &mut pos) { Some(v) => v, None => break };
        let len = match varint(data, &mut pos) { Some(v) => v + 1, None => break };
        let s = cur + gap;
        let e = s + len;
        input.push((s, e));
        cur = e;
    }
    let v: Vec<Extent> = input.iter().map(|(s, e)| Extent { start: *s, end: *e, shared: false }).collect();
    let out = libfs::merge_extents(v).expect("merge_extents failed on a valid list");
    let out: Vec<(u64, u64)> = out.iter().map(|e| (e.start, e.end)).collect();
    if let Err(why) = laws(&input, &out) {
        panic!("C19 merge law violated: {} input={:?} output={:?}", why, input, out);
    }
});
