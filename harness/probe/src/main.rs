//! API probe linked against /repo/libxcp and /repo/libfs (rebuilt by cargo whenever /repo changes).
//!
//!   probe extents <file>            JSON: map_extents, merged, SEEK_DATA/SEEK_HOLE segment walk
//!   probe merge-list                stdin JSON [[start,end,shared],..] -> merged JSON
//!   probe merge-exhaustive <U>      enumerate every sorted non-overlapping extent list over 0..=U,
//!                                   check the merge laws, print a JSON summary
//!   probe copy                      stdin JSON config -> run a driver as a library client, print the
//!                                   update stream and the result as JSON

use crossbeam_channel as cbc;
use libfs::Extent;
use libxcp::config::{Backup, Config, Reflink};
use libxcp::drivers::{load_driver, Drivers};
use libxcp::errors::Result as XResult;
use libxcp::feedback::{ChannelUpdater, NoopUpdater, StatusUpdate, StatusUpdater};
use serde::{Deserialize, Serialize};
use serde_json::json;
use std::fs::File;
use std::io::{Read, Write};
use std::path::PathBuf;
use std::str::FromStr;
use std::sync::{Arc, Mutex};
use std::time::Duration;

fn ext_json(v: &[Extent]) -> Vec<(u64, u64, bool)> {
    v.iter().map(|e| (e.start, e.end, e.shared)).collect()
}

fn cmd_extents(path: &str) -> i32 {
    let f = match File::open(path) {
        Ok(f) => f,
        Err(e) => {
            println!("{}", json!({"error": e.to_string()}));
            return 1;
        }
    };
    let len = f.metadata().map(|m| m.len()).unwrap_or(0);
    let sparse = libfs::probably_sparse(&f).map_err(|e| e.to_string());
    let (map, merged) = match libfs::map_extents(&f) {
        Ok(Some(v)) => {
            let m = ext_json(&v);
            let merged = libfs::merge_extents(v).map(|x| ext_json(&x)).map_err(|e| e.to_string());
            (Ok(Some(m)), Some(merged))
        }
        Ok(None) => (Ok(None), None),
        Err(e) => (Err(e.to_string()), None),
    };
    // segment walk exactly as the copy loops use it
    let out = tempfile_out();
    let mut segs: Vec<(u64, u64)> = vec![];
    let mut seg_err: Option<String> = None;
    let mut pos = 0u64;
    let mut guard = 0;
    while pos < len {
        match libfs::next_sparse_segments(&f, &out, pos) {
            Ok((d, h)) => {
                segs.push((d, h));
                if h <= pos {
                    seg_err = Some(format!("no progress at pos {} (data {}, hole {})", pos, d, h));
                    break;
                }
                pos = h;
            }
            Err(e) => {
                seg_err = Some(e.to_string());
                break;
            }
        }
        guard += 1;
        if guard > 1_000_000 {
            seg_err = Some("segment walk does not terminate".into());
            break;
        }
    }
    println!(
        "{}",
        json!({"len": len, "probably_sparse": sparse.ok(), "map_extents": map.clone().ok(), "map_error": map.err(), "merged": merged.clone().and_then(|m| m.ok()),
               "merge_error": merged.and_then(|m| m.err()), "segments": segs, "segments_error": seg_err})
    );
    0
}

fn tempfile_out() -> File {
    let p = format!("/dev/shm/xv-probe-out-{}", std::process::id());
    let f = std::fs::OpenOptions::new().read(true).write(true).create(true).truncate(true).open(&p).expect("temp out");
    let _ = std::fs::remove_file(&p);
    f
}

/// The merge laws of C19. Inputs are sorted and non-overlapping (touching allowed).
pub fn merge_laws(input: &[(u64, u64)], output: &[(u64, u64)]) -> Result<(), String> {
    // inputs that overlap each other (sorted by start only): only coverage and boundary laws apply
    let disjoint_inputs = input.windows(2).all(|w| w[0].1 <= w[1].0);
    if !disjoint_inputs {
        for o in output {
            if !input.iter().any(|i| i.0 == o.0) {
                return Err(format!("output {:?} does not begin at an input boundary", o));
            }
            if !input.iter().any(|i| i.1 == o.1) {
                return Err(format!("output {:?} does not end at an input boundary", o));
            }
        }
        for i in input {
            if !output.iter().any(|o| o.0 <= i.0 && i.1 <= o.1) {
                return Err(format!("input {:?} is not covered by a single output range", i));
            }
        }
        return Ok(());
    }
    // outputs ordered and disjoint
    for w in output.windows(2) {
        if w[0].1 > w[1].0 || w[0].0 > w[1].0 {
            return Err(format!("outputs not ordered/disjoint: {:?} then {:?}", w[0], w[1]));
        }
    }
    for o in output {
        if o.0 > o.1 {
            return Err(format!("inverted output range {:?}", o));
        }
        if !input.iter().any(|i| i.0 == o.0) {
            return Err(format!("output {:?} does not begin at an input boundary", o));
        }
        if !input.iter().any(|i| i.1 == o.1) {
            return Err(format!("output {:?} does not end at an input boundary", o));
        }
    }
    // coverage: every input inside one output
    for i in input {
        if !output.iter().any(|o| o.0 <= i.0 && i.1 <= o.1) {
            return Err(format!("input {:?} is not covered by a single output range", i));
        }
    }
    // added bytes only in gaps between consecutive inputs within the same output
    for o in output {
        let inside: Vec<&(u64, u64)> = input.iter().filter(|i| o.0 <= i.0 && i.1 <= o.1).collect();
        if let (Some(first), Some(last)) = (inside.first(), inside.last()) {
            if first.0 != o.0 || last.1 != o.1 {
                return Err(format!("output {:?} extends beyond the inputs it contains", o));
            }
        } else if o.0 != o.1 {
            return Err(format!("output {:?} contains no input", o));
        }
    }
    Ok(())
}

fn run_merge(input: &[(u64, u64)]) -> Result<Vec<(u64, u64)>, String> {
    let v: Vec<Extent> = input.iter().map(|(s, e)| Extent { start: *s, end: *e, shared: false }).collect();
    libfs::merge_extents(v).map(|m| m.iter().map(|e| (e.start, e.end)).collect()).map_err(|e| e.to_string())
}

fn cmd_merge_exhaustive(u: u64) -> i32 {
    // enumerate every sorted list of non-empty, non-overlapping extents with boundaries in 0..=u
    let mut lists: u64 = 0;
    let mut nontrivial: u64 = 0;
    let mut violation: Option<serde_json::Value> = None;
    let mut samples: Vec<serde_json::Value> = vec![];
    fn rec(from: u64, u: u64, cur: &mut Vec<(u64, u64)>, f: &mut dyn FnMut(&[(u64, u64)]) -> bool) -> bool {
        if !f(cur) {
            return false;
        }
        for s in from..u {
            for e in (s + 1)..=u {
                cur.push((s, e));
                let cont = rec(e, u, cur, f);
                cur.pop();
                if !cont {
                    return false;
                }
            }
        }
        true
    }
    let mut cur = vec![];
    rec(0, u, &mut cur, &mut |l: &[(u64, u64)]| {
        lists += 1;
        let nt = l.len() >= 2 && l.windows(2).any(|w| w[1].0 - w[0].1 <= 1);
        if nt {
            nontrivial += 1;
        }
        match run_merge(l) {
            Ok(out) => {
                if let Err(why) = merge_laws(l, &out) {
                    violation = Some(json!({"input": l, "output": out, "why": why}));
                    return false;
                }
                if nt && samples.len() < 5 && lists % 97 == 3 {
                    samples.push(json!({"input": l, "output": out}));
                }
            }
            Err(e) => {
                violation = Some(json!({"input": l, "why": format!("merge_extents failed: {}", e)}));
                return false;
            }
        }
        true
    });
    println!("{}", json!({"universe": u, "lists": lists, "nontrivial": nontrivial, "violation": violation, "samples": samples}));
    0
}

/// every list of up to `maxn` non-empty extents over 0..=u sorted by (start, end), overlaps and nesting allowed
fn cmd_merge_exhaustive_overlap(u: u64, maxn: usize) -> i32 {
    let mut all: Vec<(u64, u64)> = vec![];
    for s in 0..u {
        for e in (s + 1)..=u {
            all.push((s, e));
        }
    }
    let mut lists: u64 = 0;
    let mut violation: Option<serde_json::Value> = None;
    fn rec(all: &[(u64, u64)], from: usize, maxn: usize, cur: &mut Vec<(u64, u64)>, f: &mut dyn FnMut(&[(u64, u64)]) -> bool) -> bool {
        if !f(cur) {
            return false;
        }
        if cur.len() == maxn {
            return true;
        }
        for i in from..all.len() {
            cur.push(all[i]);
            let c = rec(all, i, maxn, cur, f);
            cur.pop();
            if !c {
                return false;
            }
        }
        true
    }
    let mut cur = vec![];
    rec(&all, 0, maxn, &mut cur, &mut |l: &[(u64, u64)]| {
        lists += 1;
        match run_merge(l) {
            Ok(out) => {
                if let Err(why) = merge_laws(l, &out) {
                    violation = Some(json!({"input": l, "output": out, "why": why}));
                    return false;
                }
            }
            Err(e) => {
                violation = Some(json!({"input": l, "why": format!("merge_extents failed: {}", e)}));
                return false;
            }
        }
        true
    });
    println!("{}", json!({"universe": u, "max_extents": maxn, "lists": lists, "violation": violation}));
    0
}

fn cmd_merge_list() -> i32 {
    let mut s = String::new();
    std::io::stdin().read_to_string(&mut s).ok();
    let input: Vec<(u64, u64)> = match serde_json::from_str(&s) {
        Ok(v) => v,
        Err(e) => {
            println!("{}", json!({"error": e.to_string()}));
            return 1;
        }
    };
    match run_merge(&input) {
        Ok(out) => println!("{}", json!({"output": out, "law_violation": merge_laws(&input, &out).err()})),
        Err(e) => println!("{}", json!({"error": e})),
    }
    0
}

// ---------------------------------------------------------------- library-client copy probe

#[derive(Deserialize)]
struct CopyCfg {
    driver: String,
    sources: Vec<String>,
    dest: String,
    workers: usize,
    block_size: u64,
    /// "record" | "channel" | "noop"
    updater: String,
    #[serde(default)]
    no_clobber: bool,
    #[serde(default)]
    no_perms: bool,
    #[serde(default)]
    no_timestamps: bool,
    #[serde(default)]
    fsync: bool,
    #[serde(default)]
    dereference: bool,
    #[serde(default)]
    reflink: String,
    #[serde(default)]
    backup: String,
    /// append one line per update to this file (the supervisor orders them against data calls)
    #[serde(default)]
    marker: Option<String>,
    /// give up waiting for the stream to end after this many ms
    #[serde(default)]
    drain_timeout_ms: Option<u64>,
}

#[derive(Serialize, Clone)]
struct Upd {
    k: &'static str,
    v: u64,
    th: u64,
    #[serde(skip_serializing_if = "Option::is_none")]
    msg: Option<String>,
}

struct Recording {
    log: Mutex<Vec<Upd>>,
    marker: Option<Mutex<File>>,
}

fn thread_no() -> u64 {
    // stable small number per thread
    let s = format!("{:?}", std::thread::current().id());
    s.chars().filter(|c| c.is_ascii_digit()).collect::<String>().parse().unwrap_or(0)
}

fn upd_of(u: &StatusUpdate) -> Upd {
    match u {
        StatusUpdate::Copied(v) => Upd { k: "Copied", v: *v, th: thread_no(), msg: None },
        StatusUpdate::Size(v) => Upd { k: "Size", v: *v, th: thread_no(), msg: None },
        StatusUpdate::Error(e) => Upd { k: "Error", v: 0, th: thread_no(), msg: Some(e.to_string()) },
    }
}

impl StatusUpdater for Recording {
    fn send(&self, update: StatusUpdate) -> XResult<()> {
        let u = upd_of(&update);
        if let Some(m) = &self.marker {
            let mut f = m.lock().unwrap();
            let _ = f.write_all(format!("{} {}\n", u.k, u.v).as_bytes());
        }
        self.log.lock().unwrap().push(u);
        Ok(())
    }
}

fn cmd_copy() -> i32 {
    let mut s = String::new();
    std::io::stdin().read_to_string(&mut s).ok();
    let cfg: CopyCfg = match serde_json::from_str(&s) {
        Ok(c) => c,
        Err(e) => {
            println!("{}", json!({"error": format!("bad config: {e}")}));
            return 2;
        }
    };
    let config = Arc::new(Config {
        workers: cfg.workers,
        block_size: cfg.block_size,
        gitignore: false,
        no_clobber: cfg.no_clobber,
        no_perms: cfg.no_perms,
        no_timestamps: cfg.no_timestamps,
        ownership: false,
        dereference: cfg.dereference,
        no_target_directory: false,
        fsync: cfg.fsync,
        reflink: Reflink::from_str(if cfg.reflink.is_empty() { "auto" } else { &cfg.reflink }).unwrap_or(Reflink::Auto),
        backup: Backup::from_str(if cfg.backup.is_empty() { "none" } else { &cfg.backup }).unwrap_or(Backup::None),
    });
    let drv = match Drivers::from_str(&cfg.driver).and_then(|d| load_driver(d, &config).map_err(|e| libxcp::errors::XcpError::UnknownDriver(e.to_string()))) {
        Ok(d) => d,
        Err(e) => {
            println!("{}", json!({"error": format!("driver: {e}")}));
            return 2;
        }
    };
    let sources: Vec<PathBuf> = cfg.sources.iter().map(PathBuf::from).collect();
    let dest = PathBuf::from(&cfg.dest);
    let marker = cfg.marker.as_ref().map(|p| Mutex::new(std::fs::OpenOptions::new().create(true).append(true).open(p).expect("marker file")));
    let timeout = Duration::from_millis(cfg.drain_timeout_ms.unwrap_or(20_000));

    let mut updates: Vec<Upd> = vec![];
    let mut closed = true;
    let result: Result<(), String>;
    let mut returned = true;
    match cfg.updater.as_str() {
        "channel" => {
            let updater = ChannelUpdater::new(&config);
            let rx = updater.rx_channel();
            let stats: Arc<dyn StatusUpdater> = Arc::new(updater);
            let (done_tx, done_rx) = cbc::bounded::<Result<(), String>>(1);
            std::thread::spawn(move || {
                let r = drv.copy(sources, &dest, stats).map_err(|e| e.to_string());
                let _ = done_tx.send(r);
            });
            // the documented client loop: iterate until the channel closes
            loop {
                match recv_live(&rx, timeout) {
                    Ok(u) => {
                        let x = upd_of(&u);
                        if let Some(m) = &marker {
                            let _ = m.lock().unwrap().write_all(format!("{} {}\n", x.k, x.v).as_bytes());
                        }
                        updates.push(x);
                    }
                    Err(cbc::RecvTimeoutError::Disconnected) => break,
                    Err(cbc::RecvTimeoutError::Timeout) => {
                        closed = false;
                        break;
                    }
                }
            }
            match recv_live(&done_rx, timeout) {
                Ok(r) => result = r,
                Err(_) => {
                    returned = false;
                    result = Err("copy() did not return".into());
                }
            }
        }
        "noop" => {
            let stats: Arc<dyn StatusUpdater> = Arc::new(NoopUpdater);
            let (done_tx, done_rx) = cbc::bounded::<Result<(), String>>(1);
            std::thread::spawn(move || {
                let r = drv.copy(sources, &dest, stats).map_err(|e| e.to_string());
                let _ = done_tx.send(r);
            });
            match recv_live(&done_rx, timeout) {
                Ok(r) => result = r,
                Err(_) => {
                    returned = false;
                    result = Err("copy() did not return".into());
                }
            }
        }
        _ => {
            let recu = Arc::new(Recording { log: Mutex::new(vec![]), marker });
            let stats: Arc<dyn StatusUpdater> = recu.clone();
            let (done_tx, done_rx) = cbc::bounded::<Result<(), String>>(1);
            std::thread::spawn(move || {
                let r = drv.copy(sources, &dest, stats).map_err(|e| e.to_string());
                let _ = done_tx.send(r);
            });
            match recv_live(&done_rx, timeout) {
                Ok(r) => result = r,
                Err(_) => {
                    returned = false;
                    result = Err("copy() did not return".into());
                }
            }
            // for a client-supplied updater "the stream ends" = nobody holds the updater any more; after an
            // error copy() may return while workers are still winding down, so wait (bounded) for that
            let t0 = std::time::Instant::now();
            while Arc::strong_count(&recu) != 1 && t0.elapsed() < timeout {
                std::thread::sleep(Duration::from_millis(1));
            }
            closed = Arc::strong_count(&recu) == 1;
            updates = recu.log.lock().unwrap().clone();
        }
    }
    println!("{}", json!({"ok": result.is_ok(), "error": result.err(), "returned": returned, "closed": closed, "updates": updates}));
    println!("RETURNED");
    0
}


/// process CPU time in clock ticks (utime + stime of /proc/self/stat)
fn cpu_ticks() -> u64 {
    let s = std::fs::read_to_string("/proc/self/stat").unwrap_or_default();
    let rest = s.rsplit(')').next().unwrap_or("");
    let f: Vec<&str> = rest.split_whitespace().collect();
    f.get(11).and_then(|x| x.parse::<u64>().ok()).unwrap_or(0) + f.get(12).and_then(|x| x.parse::<u64>().ok()).unwrap_or(0)
}

/// recv with a liveness-aware deadline: a window without a message only counts as a hang when the process
/// consumed (almost) no CPU during it (everything blocked) or after eight windows (spin / livelock); a process
/// that is merely slow on a loaded machine keeps burning CPU and gets more windows.
fn recv_live<T>(rx: &cbc::Receiver<T>, window: Duration) -> Result<T, cbc::RecvTimeoutError> {
    let mut windows = 0;
    loop {
        let c0 = cpu_ticks();
        match rx.recv_timeout(window) {
            Err(cbc::RecvTimeoutError::Timeout) => {
                windows += 1;
                let used = cpu_ticks().saturating_sub(c0);
                if used <= 2 || windows >= 8 {
                    return Err(cbc::RecvTimeoutError::Timeout);
                }
            }
            r => return r,
        }
    }
}

/// the public libfs copy functions with the Linux backend: copy_file / copy_sparse
fn cmd_fscopy(op: &str, src: &str, dst: &str) -> i32 {
    let r: Result<u64, String> = match op {
        "copy_file" => libfs::copy_file(std::path::Path::new(src), std::path::Path::new(dst)).map_err(|e| e.to_string()),
        "sparse" => (|| {
            let infd = File::open(src).map_err(|e| e.to_string())?;
            let len = infd.metadata().map_err(|e| e.to_string())?.len();
            let outfd = File::create(dst).map_err(|e| e.to_string())?;
            libfs::allocate_file(&outfd, len).map_err(|e| e.to_string())?;
            libfs::copy_sparse(&infd, &outfd).map_err(|e| e.to_string())
        })(),
        _ => Err(format!("unknown op {op}")),
    };
    match r {
        Ok(n) => {
            println!("OK {}", n);
            0
        }
        Err(e) => {
            println!("ERR {}", e);
            1
        }
    }
}

fn main() {
    let args: Vec<String> = std::env::args().collect();
    let code = match args.get(1).map(|s| s.as_str()) {
        Some("extents") => cmd_extents(args.get(2).map(|s| s.as_str()).unwrap_or("")),
        Some("merge-list") => cmd_merge_list(),
        Some("merge-exhaustive") => cmd_merge_exhaustive(args.get(2).and_then(|s| s.parse().ok()).unwrap_or(8)),
        Some("merge-exhaustive-overlap") => cmd_merge_exhaustive_overlap(args.get(2).and_then(|s| s.parse().ok()).unwrap_or(7), args.get(3).and_then(|s| s.parse().ok()).unwrap_or(3)),
        Some("fscopy") => cmd_fscopy(args.get(2).map(|s| s.as_str()).unwrap_or(""), args.get(3).map(|s| s.as_str()).unwrap_or(""), args.get(4).map(|s| s.as_str()).unwrap_or("")),
        Some("copy") => cmd_copy(),
        _ => {
            eprintln!("usage: probe extents <file> | merge-list | merge-exhaustive <U> | copy");
            2
        }
    };
    std::process::exit(code);
}
