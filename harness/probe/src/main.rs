fn main(){}
