//! Probe for libfs built WITHOUT the Linux backend (default-features = false): the userspace
//! fallback implementations of the public copy functions. Driven by the xv harness.
//!
//!   probe-fallback copy_file <src> <dst>
//!   probe-fallback bytes     <src> <dst> <chunk>          cursor copy in chunks of <chunk> bytes
//!   probe-fallback offsets   <src> <dst> <bsize> <seed>   offset copy, blocks in a seed-permuted order
//!   probe-fallback sparse    <src> <dst>
//!   probe-fallback which                                   prints which backend is compiled in
//!
//! Prints "OK <bytes>" and exits 0, or "ERR <message>" and exits 1.

use std::fs::File;
use std::path::Path;

fn splitmix(mut x: u64) -> u64 {
    x = x.wrapping_add(0x9e3779b97f4a7c15);
    let mut z = x;
    z = (z ^ (z >> 30)).wrapping_mul(0xbf58476d1ce4e5b9);
    z = (z ^ (z >> 27)).wrapping_mul(0x94d049bb133111eb);
    z ^ (z >> 31)
}

fn run(args: &[String]) -> Result<u64, String> {
    let op = args.get(1).map(|s| s.as_str()).unwrap_or("");
    if op == "which" {
        // the fallback backend reports no extent support and never "probably sparse"
        let f = File::open("/proc/self/exe").map_err(|e| e.to_string())?;
        let me = libfs::map_extents(&f).map_err(|e| e.to_string())?;
        println!("map_extents={}", if me.is_none() { "none(fallback)" } else { "some(linux)" });
        return Ok(0);
    }
    let src = args.get(2).ok_or("missing src")?;
    let dst = args.get(3).ok_or("missing dst")?;
    match op {
        "copy_file" => libfs::copy_file(Path::new(src), Path::new(dst)).map_err(|e| e.to_string()),
        "bytes" => {
            let chunk: u64 = args.get(4).and_then(|s| s.parse().ok()).ok_or("chunk")?;
            let infd = File::open(src).map_err(|e| e.to_string())?;
            let len = infd.metadata().map_err(|e| e.to_string())?.len();
            let outfd = File::create(dst).map_err(|e| e.to_string())?;
            libfs::allocate_file(&outfd, len).map_err(|e| e.to_string())?;
            let mut done = 0u64;
            while done < len {
                let want = std::cmp::min(chunk, len - done);
                let n = libfs::copy_file_bytes(&infd, &outfd, want).map_err(|e| e.to_string())? as u64;
                if n == 0 {
                    return Err("copy_file_bytes returned 0".into());
                }
                done += n;
            }
            Ok(done)
        }
        "offsets" => {
            let bsize: u64 = args.get(4).and_then(|s| s.parse().ok()).ok_or("bsize")?;
            let seed: u64 = args.get(5).and_then(|s| s.parse().ok()).ok_or("seed")?;
            let infd = File::open(src).map_err(|e| e.to_string())?;
            let len = infd.metadata().map_err(|e| e.to_string())?.len();
            let outfd = File::create(dst).map_err(|e| e.to_string())?;
            libfs::allocate_file(&outfd, len).map_err(|e| e.to_string())?;
            let nblocks = if len == 0 { 0 } else { (len - 1) / bsize + 1 };
            let mut order: Vec<u64> = (0..nblocks).collect();
            order.sort_by_key(|b| splitmix(seed ^ b.wrapping_mul(0x9e3779b97f4a7c15)));
            let mut total = 0u64;
            for b in order {
                let off = b * bsize;
                let want = std::cmp::min(bsize, len - off);
                let n = libfs::copy_file_offset(&infd, &outfd, want, off as i64).map_err(|e| e.to_string())? as u64;
                // the contract of the offset copy as the parblock driver uses it: one call per block
                total += n;
            }
            Ok(total)
        }
        "sparse" => {
            let infd = File::open(src).map_err(|e| e.to_string())?;
            let len = infd.metadata().map_err(|e| e.to_string())?.len();
            let outfd = File::create(dst).map_err(|e| e.to_string())?;
            libfs::allocate_file(&outfd, len).map_err(|e| e.to_string())?;
            libfs::copy_sparse(&infd, &outfd).map_err(|e| e.to_string())
        }
        _ => Err(format!("unknown op {op}")),
    }
}

fn main() {
    let args: Vec<String> = std::env::args().collect();
    match run(&args) {
        Ok(n) => println!("OK {}", n),
        Err(e) => {
            println!("ERR {}", e);
            std::process::exit(1);
        }
    }
}
